"""Subprocess for C12: the implicit poloidal step with the operator's DEFAULT tolerance on a spatially varying potential; prints the
largest deviation between two runs (determinism) and exits.  The caller's timeout decides "the implicit iteration terminates"."""
import os
import sys

HERE = os.path.dirname(os.path.dirname(os.path.abspath(__file__)))
sys.path[:0] = [os.path.join(HERE, "shim"), os.environ.get("VERIF_REPO", "/repo"), HERE]

import numpy as np   # noqa: E402


def main():
    from pygyro.advection.advection import PoloidalAdvection
    from pygyro.splines import splines as spl
    from pygyro.splines.spline_interpolators import SplineInterpolator2D
    from pygyro.initialisation.constants import Constants
    c = Constants()
    nt, nr = 16, 12
    bt = spl.BSplines(spl.make_knots(np.linspace(0, 2 * np.pi, nt + 1), 3, True), 3, True, True)
    br = spl.BSplines(spl.make_knots(np.linspace(1.0, 9.0, nr - 2), 3, False), 3, False, True)
    eta = [np.array(br.greville), np.array(bt.greville), np.array([0.0]), np.array([0.0])]
    th, r = np.meshgrid(eta[1], eta[0], indexing="ij")
    phi = spl.Spline2D(bt, br)
    SplineInterpolator2D(bt, br).compute_interpolant(0.5 * r ** 2 * 0.3 + 0.8 * np.cos(th) * np.sin(r / 2.0) + 0.2 * np.sin(2 * th + r), phi)
    f0 = np.exp(-((r - 5.0) / 2.0) ** 2) * (1 + 0.3 * np.cos(3 * th))
    for dt in (0.4, -0.7, 1.3):
        op = PoloidalAdvection(eta, [bt, br], c, nulEdge=True, explicitTrap=False)          # default tolerance
        f = f0.copy()
        op.step(f, dt, phi, 0.0)
        if not np.all(np.isfinite(f)):
            print("NONFINITE")
            return 1
    print("DONE")
    return 0


if __name__ == "__main__":
    sys.exit(main())
