"""Subprocess for C12: the implicit poloidal step with the operator's DEFAULT tolerance on a spatially varying potential; prints the
largest deviation between two runs (determinism) and exits.  The caller's timeout decides "the implicit iteration terminates"."""
import os
import sys

HERE = os.path.dirname(os.path.dirname(os.path.abspath(__file__)))
sys.path[:0] = [os.path.join(HERE, "shim"), os.environ.get("VERIF_REPO", "/repo"), HERE]

import numpy as np   # noqa: E402


def main():
    from pygyro.advection.advection import PoloidalAdvection
    from pygyro.splines import splines as spl
    from pygyro.splines.spline_interpolators import SplineInterpolator2D
    from pygyro.initialisation.constants import Constants
    c = Constants()
    nt, nr = 16, 12
    bt = spl.BSplines(spl.make_knots(np.linspace(0, 2 * np.pi, nt + 1), 3, True), 3, True, True)
    br = spl.BSplines(spl.make_knots(np.linspace(1.0, 9.0, nr - 2), 3, False), 3, False, True)
    eta = [np.array(br.greville), np.array(bt.greville), np.array([0.0]), np.array([0.0])]
    th, r = np.meshgrid(eta[1], eta[0], indexing="ij")
    phi = spl.Spline2D(bt, br)
    SplineInterpolator2D(bt, br).compute_interpolant(0.5 * r ** 2 * 0.3 + 0.8 * np.cos(th) * np.sin(r / 2.0) + 0.2 * np.sin(2 * th + r), phi)
    f0 = np.exp(-((r - 5.0) / 2.0) ** 2) * (1 + 0.3 * np.cos(3 * th))
    for dt in (0.4, -0.7, 1.3):
        op = PoloidalAdvection(eta, [bt, br], c, nulEdge=True, explicitTrap=False)          # default tolerance
        f = f0.copy()
        op.step(f, dt, phi, 0.0)
        if not np.all(np.isfinite(f)):
            print("NONFINITE")
            return 1
    # "the explicit and implicit variants agree to third order in dt" - with the operator's default tolerance, down to small steps
    # (an iteration that stops early leaves a difference that does not shrink with dt)
    errs = []
    for k in range(3, 9):
        dt = 2.0 ** -k
        fi, fe = f0.copy(), f0.copy()
        PoloidalAdvection(eta, [bt, br], c, nulEdge=True, explicitTrap=False).step(fi, dt, phi, 0.0)
        PoloidalAdvection(eta, [bt, br], c, nulEdge=True, explicitTrap=True).step(fe, dt, phi, 0.0)
        errs.append(float(np.max(np.abs(fi - fe)[:, 2:-2])))      # nodes whose feet stay inside the radial domain
    print("ORDER " + " ".join("%.3e" % e for e in errs))
    # "converged implicit iteration": tightening the tolerance far below the default does not change the result - on a sheared
    # vortex, where the fixed-point map contracts slowly
    nt2, nr2 = 24, 20
    bt2 = spl.BSplines(spl.make_knots(np.linspace(0, 2 * np.pi, nt2 + 1), 3, True), 3, True, True)
    br2 = spl.BSplines(spl.make_knots(np.linspace(2.0, 14.5, nr2 - 2), 3, False), 3, False, True)
    eta2 = [np.array(br2.greville), np.array(bt2.greville), np.array([0.0]), np.array([0.0])]
    th2, r2 = np.meshgrid(eta2[1], eta2[0], indexing="ij")
    phi2 = spl.Spline2D(bt2, br2)
    SplineInterpolator2D(bt2, br2).compute_interpolant(10 * np.exp(-((r2 * np.cos(th2) - 7) ** 2 + (r2 * np.sin(th2)) ** 2) / 9), phi2)
    g0 = np.exp(-((r2 - 8.0) / 3.0) ** 2) * (1 + 0.3 * np.cos(3 * th2))
    dev = 0.0
    for dt in (0.3, -0.5):
        fd, ft = g0.copy(), g0.copy()
        PoloidalAdvection(eta2, [bt2, br2], c, nulEdge=True, explicitTrap=False).step(fd, dt, phi2, 0.0)
        PoloidalAdvection(eta2, [bt2, br2], c, nulEdge=True, explicitTrap=False, tol=1e-12).step(ft, dt, phi2, 0.0)
        dev = max(dev, float(np.max(np.abs(fd - ft)[:, 2:-2])))
    print("CONV %.3e" % dev)
    # another argument form: f handed over as a strided view (the step works in place on the caller's array)
    form = 0.0
    for expl in (True, False):
        wide = np.zeros((nt, 2 * nr))
        wide[:, ::2] = f0
        view = wide[:, ::2]
        ref = f0.copy()
        PoloidalAdvection(eta, [bt, br], c, nulEdge=True, explicitTrap=expl).step(view, 0.4, phi, 0.0)
        PoloidalAdvection(eta, [bt, br], c, nulEdge=True, explicitTrap=expl).step(ref, 0.4, phi, 0.0)
        form = max(form, float(np.max(np.abs(wide[:, ::2] - ref))), float(np.max(np.abs(wide[:, 1::2]))))
    print("FORM %.3e" % form)
    print("DONE")
    return 0


if __name__ == "__main__":
    sys.exit(main())
