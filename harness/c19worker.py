"""Worker for C19: executes kernel cases on one build of the sources.
argv: <root> <variant: compiled|python|numba|pythran> <cases.pkl> <out.pkl>
compiled : <root> holds the pyccel-built shared libraries next to the sources (import precedence)
python   : the interpreted sources of <root> (no shared libraries there)
numba / pythran : the alternative source copies, loaded as plain Python with inert stand-ins for numba."""
import copy
import importlib
import importlib.util
import os
import pickle
import signal
import sys
import types

root, variant, cases_p, out_p = sys.argv[1:5]
HERE = os.path.dirname(os.path.dirname(os.path.abspath(__file__)))
sys.path[:0] = [os.path.join(HERE, "shim"), root]

import numpy as np  # noqa: E402


class _Any:
    def __getitem__(self, k):
        return self

    def __call__(self, *a, **k):
        return self


def _fake_numba():
    nb = types.ModuleType("numba")

    def njit(*a, **k):
        if len(a) == 1 and callable(a[0]) and not k:
            return a[0]
        return lambda f: f
    nb.njit = njit
    nb.jit = njit
    pycc = types.ModuleType("numba.pycc")

    class CC:
        def __init__(self, *a, **k):
            pass

        def export(self, *a, **k):
            return lambda f: f

        def compile(self):
            pass
    pycc.CC = CC
    tp = types.ModuleType("numba.types")
    for n in ("f8", "i4", "i8", "b1", "void", "c16"):
        setattr(tp, n, _Any())
    nb.pycc, nb.types = pycc, tp
    sys.modules.update({"numba": nb, "numba.pycc": pycc, "numba.types": tp})


MODMAP = {
    "spline_eval_funcs": ("pygyro.splines.spline_eval_funcs", "splines.numba_spline_eval_funcs", "pythran_spline_eval_funcs"),
    "cubic_uniform_spline_eval_funcs": ("pygyro.splines.cubic_uniform_spline_eval_funcs", "splines.numba_cubic_uniform_spline_eval_funcs",
                                        "pythran_cubic_uniform_spline_eval_funcs"),
    "accelerated_advection_steps": ("pygyro.advection.accelerated_advection_steps", "advection.numba_accelerated_advection_steps",
                                    "pythran_accelerated_advection_steps"),
    "poisson_tools": ("pygyro.poisson.poisson_tools", "poisson.numba_poisson_tools", "pythran_poisson_tools"),
    "initialiser_funcs": ("pygyro.initialisation.initialiser_funcs", "initialisation.numba_initialiser_funcs", "pythran_initialiser_funcs"),
}


def load(short):
    names = MODMAP[short]
    if variant in ("compiled", "python"):
        m = importlib.import_module(names[0])
        isso = str(getattr(m, "__file__", "")).endswith(".so")
        if (variant == "compiled") != isso:
            raise RuntimeError("%s resolved to %s in variant %s" % (names[0], m.__file__, variant))
        return m
    if variant == "numba":
        _fake_numba()
        sys.path.insert(0, os.path.join(root, "pygyro"))
        return importlib.import_module(names[1])
    if variant == "pythran":
        for d in ("advection/pythran_deps", "splines", "poisson", "initialisation"):
            p = os.path.join(root, "pygyro", d)
            if p not in sys.path:
                sys.path.append(p)
        return importlib.import_module(names[2])
    raise ValueError(variant)


class _TO(Exception):
    pass


def _alarm(s, f):
    raise _TO()


def main():
    cases = pickle.load(open(cases_p, "rb"))
    mods, out, exported = {}, [], {}
    signal.signal(signal.SIGALRM, _alarm)
    for short in MODMAP:
        try:
            mods[short] = load(short)
            exported[short] = sorted(n for n in dir(mods[short]) if callable(getattr(mods[short], n)) and not n.startswith("_"))
        except Exception as ex:
            mods[short] = ex
            exported[short] = "LOAD-ERROR %s: %s" % (type(ex).__name__, ex)
    for c in cases:
        m = mods[c["mod"]]
        if isinstance(m, Exception):
            out.append({"err": "module: %s" % m})
            continue
        f = getattr(m, c["fn"], None)
        if f is None:
            out.append({"err": "missing function"})
            continue
        args = copy.deepcopy(c["args"])
        base = None
        if "base" in c:      # an output array that must live inside a larger sentinel buffer (deepcopy would detach the view)
            base = c["base"].copy()
            k = c["base_arg"]
            n0 = c["args"][k].shape[0]
            args[k] = base[n0:2 * n0]
        try:
            signal.setitimer(signal.ITIMER_REAL, 20.0)
            r = f(*args)
            signal.setitimer(signal.ITIMER_REAL, 0)
            out.append({"ret": r if r is None or np.isscalar(r) or isinstance(r, tuple) else np.asarray(r),
                        "arrays": [a if isinstance(a, np.ndarray) else None for a in args] + ([base] if base is not None else [])})
        except _TO:
            out.append({"err": "timeout"})
        except Exception as ex:
            signal.setitimer(signal.ITIMER_REAL, 0)
            out.append({"err": "%s: %s" % (type(ex).__name__, str(ex)[:200])})
    pickle.dump({"results": out, "exported": exported}, open(out_p, "wb"))


if __name__ == "__main__":
    main()
