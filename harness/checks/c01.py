"""C01 - layout transposes preserve the global field.

Spec: Layouts (Block oracle), LayoutAbs (statement), LayoutBox/LayoutBoxMC (the configuration box, enumerated or sampled
by TLC, abstract model checked on it), Transpose/TransposeMC (implementation-shaped model refining LayoutAbs), C01Trace.
Conformance: every configuration TLC explored is replayed through LayoutHandler.transpose on the simulated ranks, and the
recorded calls are validated by C01Trace (code -> spec), plus hypothesis-style larger random configurations.
"""
import random

import numpy as np

from harness.core import Machinery
from harness import simlayout as sl

LEVEL = "model_checking"
DTYPES = [float, complex, np.int64]
INV = "INVARIANT EveryIndexOnce\nINVARIANT SizesAgree\nINVARIANT Dump\nCHECK_DEADLOCK FALSE\n"


def box_cfg(nd, maxext, maxp, maxlay, k=0, nds=(3,), sext=3, slay=3):
    return ("INIT Init\nNEXT Next\nCONSTANTS ND = %d MaxExt = %d MaxP = %d MaxLay = %d SampleK = %d SampleNDs = {%s} "
            "SampleExt = %d SampleLay = %d\n" % (nd, maxext, maxp, maxlay, k, ",".join(map(str, nds)), sext, slay)) + INV


def classify(c):
    """Stratification classes of a configuration (rows of LayoutBoxMC)."""
    np_ = c["np"]
    P = np_ + [1] * (c["nd"] - len(np_))
    cl = set()
    if len(np_) == 2 and np_[0] == 1 and np_[1] > 1:
        cl.add("leading-extent-1")
    if len(np_) == 2 and np_[0] == np_[1] and np_[0] > 1:
        cl.add("equal-extents")
    if any(c["sh"][o[i] - 1] % P[i] != 0 for o in c["lays"] for i in range(c["nd"]) if P[i] > 1):
        cl.add("uneven-blocks")
    if any(c["sh"][o[i] - 1] == P[i] and P[i] > 1 for o in c["lays"] for i in range(c["nd"])):
        cl.add("extent-equals-process-count")
    lays = c["lays"]
    def compat(a, b):
        return sum(1 for i in range(c["nd"]) if P[i] > 1 and a[i] != b[i]) < 2
    if any(not compat(a, b) for a in lays for b in lays):
        cl.add("multi-hop-route")
    if any(a != b and all(P[i] == 1 or a[i] == b[i] for i in range(c["nd"])) for a in lays for b in lays):
        cl.add("local-only-hop")
    if int(np.prod(np_)) == 1:
        cl.add("serial")
    if len([x for x in np_ if x > 1]) >= 3 or (len(np_) >= 3 and np_[2] > 1):
        cl.add("three-axis-grid")
    if any(P[i] > c["sh"][o[i] - 1] for o in c["lays"] for i in range(c["nd"])):
        cl.add("over-decomposed")
    return cl or {"plain"}


def names(c):
    lays = sorted(tuple(o) for o in c["lays"])
    return {"L" + "".join(str(d - 1) for d in o): [d - 1 for d in o] for o in lays}


def _bufsize_job(comm, shape, nprocs, layouts):
    h, _ = sl.handler_job(comm, shape, nprocs, layouts)
    return int(h.bufferSize)


def _construct_job(comm, shape, nprocs, layouts):
    try:
        h, _ = sl.handler_job(comm, shape, nprocs, layouts)
        return "ok"
    except RuntimeError as ex:
        return "refused: %s" % ex


def has_idle_rank(c):
    """Over-decomposed grids (more processes than points along a direction): does some rank own nothing in any layout?
    (Such ranks used to take themselves for the plot-only rank and skip every collective - fixed, see known_findings.json;
    the configurations are replayed like all others and counted.)"""
    from mpi4py import MPI
    if "over-decomposed" not in classify(c):
        return False
    res = MPI.run(int(np.prod(c["np"])), _bufsize_job, args=(c["sh"], c["np"], names(c)))
    return (not res.ok) or min(res.values) == 0


def run_config(ctx, c, rng, dtype, usebuf, events, meta, order_seed=None):
    from mpi4py import MPI
    layouts = names(c)
    if order_seed is not None:            # the constructor's dict order influences tie-breaks in the route search
        items = list(layouts.items())
        random.Random(order_seed).shuffle(items)
        layouts = dict(items)
    shape, nprocs = c["sh"], c["np"]
    n = int(np.prod(nprocs))
    pairs = [(a, b) for a in layouts for b in layouts]
    P = nprocs + [1] * (c["nd"] - len(nprocs))
    policy = rng.choice(["asc", "desc", "random", "rr"])
    seed = rng.randint(0, 10 ** 6)
    eager = rng.random() < 0.5

    def emit(recs_per_rank, pr, err=None):
        for rk in range(n):
            coords = [int(x) for x in np.unravel_index(rk, nprocs)]
            rc = coords + [0] * (c["nd"] - len(coords))
            for j, (a, b) in enumerate(pr):
                e = {"k": "transpose", "sh": shape, "P": P, "rc": rc,
                     "so": [d + 1 for d in layouts[a]], "do": [d + 1 for d in layouts[b]], "usebuf": bool(usebuf)}
                if err is None:
                    rec = recs_per_rank[rk][j]
                    assert rec["coords"] == coords, (rec["coords"], coords)
                    e.update({"ok": True, "block": rec["block"], "intact": bool(rec["src_intact"]) if usebuf else True,
                              "hops": [[d + 1 for d in layouts[h]] for h in rec["route"]]})
                else:
                    e.update({"ok": False, "block": [], "intact": False, "hops": [], "err": err})
                events.append(e)
                meta.append({"cfg": {"sh": shape, "np": nprocs, "layouts": layouts}, "pair": [a, b], "usebuf": usebuf,
                             "dtype": dtype if isinstance(dtype, str) else np.dtype(dtype).name, "rank": rk,
                             "schedule": {"policy": policy, "seed": seed, "eager": eager}})
    res = MPI.run(n, sl.transpose_job, policy=policy, seed=seed, eager=eager,
                  args=(shape, nprocs, layouts, pairs, usebuf, dtype))
    if res.ok:
        emit(res.values, pairs)
        return
    # isolate the failing pair(s): one job per ordered pair
    anyfail = False
    for pr in pairs:
        r1 = MPI.run(n, sl.transpose_job, policy=policy, seed=seed, eager=eager,
                     args=(shape, nprocs, layouts, [pr], usebuf, dtype))
        if r1.ok:
            emit(r1.values, [pr])
        else:
            anyfail = True
            emit(None, [pr], err=r1.describe())
    if not anyfail:
        # every transpose succeeds on a fresh handler, but the SEQUENCE on one handler failed: the handler carries state from
        # earlier calls.  Find the shortest failing prefix and report its last call.
        for k in range(2, len(pairs) + 1):
            rk_ = MPI.run(n, sl.transpose_job, policy=policy, seed=seed, eager=eager, args=(shape, nprocs, layouts, pairs[:k], usebuf, dtype))
            if not rk_.ok:
                emit(None, [pairs[k - 1]], err="after the calls %s on the same handler: %s" % (pairs[:k - 1], rk_.describe()))
                break
        else:
            emit(None, [pairs[-1]], err="sequence of all pairs on one handler: " + res.describe())


def signature(e, m, clauses):
    nprocs = m["cfg"]["np"]
    lays = m["cfg"]["layouts"]
    a, b = lays[m["pair"][0]], lays[m["pair"][1]]
    lead1 = len(nprocs) == 2 and nprocs[0] == 1 and nprocs[1] > 1
    sig = {"kind": "transpose", "clause": clauses[0], "leading_extent_1": bool(lead1),
           "changes_pos_0_and_1": bool(len(a) > 1 and a[0] != b[0] and a[1] != b[1]),
           "raises": (e.get("err", "").split(" raised ")[-1].split(":")[0] if not e["ok"] else ""),
           "history_dependent": bool("on the same handler" in e.get("err", "") or "one handler" in e.get("err", ""))}
    return sig


_WIRE = None


def _install_wire_tap():
    """Record (per rank thread) a copy of every send buffer handed to Alltoall on the simulated layer."""
    global _WIRE
    if _WIRE is not None:
        return _WIRE
    import threading
    from mpi4py import MPI
    _WIRE = threading.local()
    orig = MPI.Intracomm.Alltoall

    def tapped(self, sendbuf, recvbuf):
        lst = getattr(_WIRE, "cap", None)
        if lst is not None:
            lst.append(np.array(sendbuf, copy=True))
        return orig(self, sendbuf, recvbuf)
    MPI.Intracomm.Alltoall = tapped
    return _WIRE


def wire_job(comm, shape, nprocs, of, ot, dtype):
    tap = _install_wire_tap()
    h, eta = sl.handler_job(comm, shape, nprocs, {"A": of, "B": ot})
    G = sl.tokens(shape, dtype)
    la = h.getLayout("A")
    a, b, c = (sl.fresh(h.bufferSize, dtype) for _ in range(3))
    a[:la.size] = sl.local_block(G, la).ravel()
    tap.cap = []
    try:
        import warnings
        with warnings.catch_warnings():
            warnings.simplefilter("ignore")
            h.transpose(a, b, "A", "B", c)
        return {"coords": [int(x) for x in h.mpiCoords], "sends": [sl.decode(x).tolist() for x in tap.cap]}
    finally:
        tap.cap = None


def wire_binding(ctx, rng, quick):
    """Transpose.tla is bound to the code below the level the property speaks at: what every rank hands to Alltoall (the packed,
    padded blocks) must be what the specification's Pack produced.  A difference is DRIFT of the transcription, not a violation
    of C01 (whose verdict is the destination block) - but without this binding the exhaustive TransposeMC runs would say
    nothing about the code."""
    from mpi4py import MPI
    cfg = ("INIT Init\nNEXT Next\nCONSTANTS ND = 3 MaxExt = 1 MaxP = 3 MaxLay = 2 SampleK = %d SampleNDs = {2,3,4} SampleExt = 5 SampleLay = 3\n"
           "INVARIANT NoError\nINVARIANT DumpWire\nCHECK_DEADLOCK FALSE\n" % (60 if quick else 1500))
    r = ctx.tlc("TransposeMC", cfg, what="wire contents of the first hop (sampled configurations)", seed=ctx.seed + 9, timeout=3600, workers=4)
    if r.violated:
        ctx.drift_report("TransposeMC violates %s while producing wire rows" % r.violated)
        return
    seen, ncmp, nbad = set(), 0, 0
    for row in r.rows:
        key = (tuple(row["sh"]), tuple(row["np"]), tuple(row["of"]), tuple(row["ot"]))
        if key in seen:
            continue
        seen.add(key)
        nd = len(row["sh"])
        of, ot = [d - 1 for d in row["of"]], [d - 1 for d in row["ot"]]
        dtype = DTYPES[len(seen) % 3]
        res = MPI.run(int(np.prod(row["np"])), wire_job, policy="random", seed=len(seen), args=(row["sh"], row["np"], of, ot, dtype))
        if not res.ok:
            ctx.drift_report("wire binding: real transpose failed on %s: %s" % (key, res.describe()[:200]))
            nbad += 1
            continue
        want = {tuple(x["rc"]): x for x in row["ranks"]}
        for v in res.values:
            rc = tuple(v["coords"] + [0] * (nd - len(v["coords"])))
            w = want[rc]
            ncmp += 1
            ok = len(v["sends"]) == 1 and len(v["sends"][0]) == w["size"] and all(
                a == b for a, b in zip(w["send"], v["sends"][0]) if a != -7)
            if not ok:
                nbad += 1
                ctx.drift_report("wire binding: rank %s of %s hands %s to Alltoall, Transpose.tla's Pack gives %s" % (
                    rc, key, [x[:40] for x in v["sends"]], w["send"][:40]))
    ctx.extra["wire_rows_compared"] = ncmp
    ctx.extra["wire_rows_differing"] = nbad
    ctx.log("wire binding: %d rank send buffers of %d hop configurations compared with Transpose.tla's Pack, %d differ" % (ncmp, len(seen), nbad))
    if ncmp == 0:
        raise Machinery("vacuity: no wire row compared")


def run(ctx):
    rng = random.Random(ctx.seed)
    quick = ctx.quick()
    ctx.rule = ("configurations = rows printed by LayoutBoxMC (exhaustive boxes per array rank + TLC-sampled wider box); each is "
                "replayed for every ordered (source,destination) pair incl. equal, buffer given / not given, payload types rotated "
                "(thorough: all), random schedules; distinct = distinct (shape, nprocs, layout set, pair, buffer, dtype); "
                "non-trivial = more than one process or a non-identity re-ordering")
    boxes = []
    if quick:
        boxes += [("2-D ext<=4", box_cfg(2, 4, 3, 2)), ("3-D ext<=2, <=3 layouts", box_cfg(3, 2, 2, 3)),
                  ("sampled 4-D ext<=3, <=3 layouts", box_cfg(4, 1, 3, 2, k=500, nds=(4,), sext=3, slay=3)),
                  ("sampled 3-D/4-D ext<=5, <=4 layouts", box_cfg(3, 1, 3, 2, k=400, nds=(3, 4), sext=5, slay=4))]
    else:
        boxes += [("2-D ext<=5", box_cfg(2, 5, 4, 2)), ("3-D ext<=3, <=3 layouts", box_cfg(3, 3, 3, 3)),
                  ("4-D ext<=2, <=3 layouts", box_cfg(4, 2, 2, 3)),
                  ("sampled 3-D/4-D ext<=7, <=5 layouts", box_cfg(3, 1, 4, 2, k=3000, nds=(3, 4), sext=7, slay=5))]
    OVER = "CONSTANT MaxNpLen <- MaxNpLenFull\nCONSTANT GridFits <- AnyFits\n"
    boxes += [("sampled 3-D/4-D, process grids of every length, over-decomposed grids admitted",
               box_cfg(3, 1, 3, 2, k=300 if quick else 3000, nds=(3, 4), sext=4, slay=3) + OVER)]
    rows = []
    for what, cfg in boxes:
        r = ctx.tlc("LayoutBoxMC", cfg, what=what, seed=ctx.seed + 1, timeout=7200)
        if r.violated:
            raise Machinery("abstract layout model violates %s: %s" % (r.violated, r.trace_text))
        rows.append((what, r.rows))
        ctx.log("LayoutBoxMC %s: %d configurations, %d states in %.1fs" % (what, len(r.rows), r.distinct, r.wall))
    # the implementation-shaped model (numpy strided views, pack / Alltoall / unpack, redirects) refines LayoutAbs on its box
    tcfg = ("INIT Init\nNEXT Next\nCONSTANTS ND = %d MaxExt = %d MaxP = %d MaxLay = %d SampleK = %d SampleNDs = {%s} SampleExt = %d SampleLay = %d\n"
            "INVARIANT NoError\nINVARIANT DestCorrect\nINVARIANT SourceIntact\nCHECK_DEADLOCK FALSE\n")
    tboxes = [("3-D ext<=3, P<=3, 2 layouts", tcfg % (3, 3, 3, 2, 0, "3", 3, 3)), ("sampled 3-D/4-D ext<=4, <=4 layouts", tcfg % (3, 1, 3, 2, 60 if quick else 600, "3,4", 4, 4))]
    if not quick:
        tboxes += [("3-D ext<=3, P<=3, 3 layouts", tcfg % (3, 3, 3, 3, 0, "3", 3, 3)), ("4-D ext<=2, P<=2, 2 layouts", tcfg % (4, 2, 2, 2, 0, "4", 2, 2))]
    tboxes += [("sampled 3-D/4-D, process grids of every length, over-decomposed (idle data ranks included)",
                tcfg % (3, 1, 3, 2, 80 if quick else 1500, "3,4", 4, 3) + "CONSTANT MaxNpLen <- MaxNpLenFull\nCONSTANT GridFits <- AnyFits\n")]
    for what, cfg in tboxes:
        r = ctx.tlc("TransposeMC", cfg, what="Transpose refines LayoutAbs: " + what, seed=ctx.seed + 5, timeout=7200, big=not quick)
        ctx.log("TransposeMC %s: %d states in %.1fs %s" % (what, r.distinct, r.wall, r.violated or "ok"))
        if r.violated:
            ctx.drift_report("Transpose.tla (transcription of LayoutHandler.transpose on numpy views) violates %s on box '%s': either the transcription "
                             "drifted from the code or the algorithm is wrong there - the replay below decides: %s" % (r.violated, what, (r.trace_text or "")[:600]))
    ctx.exhaustive = True
    # choose what to replay
    chosen = []
    idle_skipped = [0]
    classes_seen = {}
    for what, rs in rows:
        rs = list(rs)
        rng.shuffle(rs)
        cap = None
        if quick and not what.startswith("sampled"):
            cap = 150
        per_class = {}
        for c in rs:
            cl = classify(c)
            if "over-decomposed" in cl and has_idle_rank(c):
                idle_skipped[0] += 1
                cl = cl | {"idle-data-rank"}
            if cap is not None:
                # stratified: keep while some class of this configuration is still under-represented
                if all(per_class.get(x, 0) >= cap // 5 for x in cl) and len([1 for x in chosen if x[0] == what]) >= cap:
                    continue
            for x in cl:
                per_class[x] = per_class.get(x, 0) + 1
                classes_seen[x] = classes_seen.get(x, 0) + 1
            chosen.append((what, c))
    # deterministic configurations with long routes: a chain of five orderings on a 2x2 grid (routes of 1..4 hops, both parities,
    # with and without spare buffer), even and uneven extents; and the six orderings of three dimensions (a ring)
    chain5 = [[3, 1, 2], [3, 2, 1], [1, 2, 3], [1, 3, 2], [2, 3, 1]]
    ring6 = [[1, 2, 3], [1, 3, 2], [2, 3, 1], [2, 1, 3], [3, 1, 2], [3, 2, 1]]
    for sh_ in ([4, 4, 4], [5, 3, 4]):
        chosen.append(("chain of five orderings (4-hop routes)", {"nd": 3, "sh": sh_, "np": [2, 2], "lays": chain5}))
        chosen.append(("ring of six orderings", {"nd": 3, "sh": sh_, "np": [2, 2], "lays": ring6}))
    ctx.extra["configurations_replayed"] = len(chosen)
    ctx.extra["over_decomposed_configurations_with_an_idle_data_rank_replayed"] = idle_skipped[0]
    ctx.extra["classes"] = classes_seen
    for need in ("leading-extent-1", "equal-extents", "uneven-blocks", "multi-hop-route", "local-only-hop", "extent-equals-process-count",
                 "three-axis-grid", "over-decomposed", "idle-data-rank"):
        if classes_seen.get(need, 0) == 0:
            raise Machinery("vacuity: no replayed configuration of class " + need)
    events, meta = [], []
    for i, (what, c) in enumerate(chosen):
        combos = [(DTYPES[i % 3], bool(i % 2))] if quick else [(d, b) for d in DTYPES for b in (False, True)]
        if quick:
            combos.append((DTYPES[(i + 1) % 3], not bool(i % 2)))
        if what.startswith(("chain of five", "ring of six")):
            combos = [(DTYPES[i % 3], False), (DTYPES[(i + 1) % 3], True)]
        if i % 4 == 0:
            combos.append(("mixed", bool(i % 8)))          # one handler, payload type changing from call to call
        for dtype, usebuf in combos:
            run_config(ctx, c, rng, dtype, usebuf, events, meta, order_seed=rng.randint(0, 99) if i % 3 == 0 else None)
    ctx.log("replayed %d configurations -> %d recorded transpose calls" % (len(chosen), len(events)))
    # larger random cases (code -> spec beyond the model box)
    nbig = 25 if quick else 300
    nrefuse = [0, 0]
    from mpi4py import MPI
    made = 0
    tries = 0
    while made < nbig and tries < nbig * 40:
        tries += 1
        nd = rng.choice([2, 3, 4])
        sh = [rng.randint(2, 12 if nd < 4 else 7) for _ in range(nd)]
        k = rng.randint(2, 5)
        perms = sl.all_perms(nd)
        lays = [[d + 1 for d in o] for o in rng.sample(perms, min(k, len(perms)))]
        nl = 1 if nd == 2 else rng.choice([1, 2] + ([3] if nd == 4 else []))
        npr = [rng.randint(1, 4 if nl < 3 else 3) for _ in range(nl)]
        c = {"nd": nd, "sh": sh, "np": npr, "lays": lays}
        P = npr + [1] * (nd - nl)
        if int(np.prod(npr)) > 12:
            continue
        if any(P[i] > sh[o[i] - 1] for o in lays for i in range(nd)) and tries % 4:
            continue            # over-decomposed grids: one candidate in four
        from harness.checks.c02 import connected
        if not connected({str(i): [d - 1 for d in o] for i, o in enumerate(lays)}, npr):
            continue
        made += 1
        run_config(ctx, c, rng, DTYPES[made % 3], bool(made % 2), events, meta)
    ctx.extra["random_large_configurations"] = made
    # layout sets that are NOT connected by single-hop transposes: the constructor must refuse them on every rank; if it accepts one,
    # the property applies ("all sets of dimension orderings that the handler accepts") and every pair is judged as usual
    t2 = 0
    while nrefuse[0] + nrefuse[1] < (12 if quick else 120) and t2 < 5000:
        t2 += 1
        nd = rng.choice([3, 4])
        sh = [rng.randint(2, 6) for _ in range(nd)]
        lays = [[d + 1 for d in o] for o in rng.sample(sl.all_perms(nd), rng.randint(3, 5))]
        npr = [rng.randint(2, 3) for _ in range(2)]
        P = npr + [1] * (nd - 2)
        c = {"nd": nd, "sh": sh, "np": npr, "lays": lays}
        if any(P[i] > sh[o[i] - 1] for o in lays for i in range(nd)) or connected({str(i): [d - 1 for d in o] for i, o in enumerate(lays)}, npr):
            continue
        n = int(np.prod(npr))
        res = MPI.run(n, _construct_job, args=(sh, npr, names(c)))
        outs = set(res.values) if res.ok else set()
        if outs == {"ok"}:
            nrefuse[1] += 1
            run_config(ctx, c, rng, DTYPES[t2 % 3], bool(t2 % 2), events, meta)
        elif res.ok and len(outs) == 1 and "connected" in next(iter(outs)):
            nrefuse[0] += 1
        else:
            ctx.violation({"kind": "constructor", "what": "disconnected-set-not-refused-uniformly"},
                          "layout set %s on grid %s, shape %s is not connected; constructor outcome per rank: %s %s" % (
                              lays, npr, sh, sorted(outs), res.describe()[:300]), {"cfg": c})
    ctx.extra["disconnected_layout_sets_refused_by_the_constructor"] = nrefuse[0]
    ctx.extra["disconnected_layout_sets_accepted_by_the_constructor"] = nrefuse[1]
    if nrefuse[0] + nrefuse[1] == 0:
        raise Machinery("vacuity: no disconnected layout set was offered to the constructor")
    # validate in batches
    B = 6000
    for s in range(0, len(events), B):
        ev, mt = events[s:s + B], meta[s:s + B]
        rej, _ = ctx.validate_trace("C01Trace", ev, what="recorded transposes %d..%d" % (s, s + len(ev)))
        for j, (e, m) in enumerate(zip(ev, mt), 1):
            trivial = int(np.prod(m["cfg"]["np"])) == 1 and m["pair"][0] == m["pair"][1]
            ctx.count(None if trivial else (str(m["cfg"]), tuple(m["pair"]), m["usebuf"], m["dtype"], m["rank"]))
            if j in rej:
                ctx.violation(signature(e, m, rej[j]),
                              "transpose %s on rank %d rejected by C01Trace clauses %s (%s)" % (
                                  m, m["rank"], rej[j], e.get("err", "block differs from Block(...)")),
                              {"event": e, "meta": m})
    ctx.sample({"config": chosen[0][1], "event": {k: v for k, v in events[0].items()}})
    wire_binding(ctx, rng, quick)
    ctx.sample({"config": chosen[-1][1], "meta": meta[-1]})
