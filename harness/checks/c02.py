"""C02 - block decomposition is an exact balanced partition; accessors agree with it.

Spec: Partition (formula + formula-independent predicates), Layouts, C02Trace.
TLC: PartitionMC exhaustively for 1<=p<=n<=NMax; C02Trace validates tables / Layout objects /
Grid accessors / buffer sizes recorded from the real classes (on the simulated MPI layer).
"""
import itertools
import random

import numpy as np

from harness.core import Machinery, to_int
from harness import simlayout as sl

LEVEL = "model_checking"


def table_event(n, p):
    from pygyro.model.layout import Layout
    lay = Layout("x", [p], [0], [np.arange(n)], [0])
    return {"k": "table1d", "n": n, "p": p,
            "starts": [int(x) for x in lay.mpi_starts(0)], "lens": [int(x) for x in lay.mpi_lengths(0)],
            "maxlen": int(lay.max_block_shape[0])}


def layout_event(shape, order, nprocs, rc):
    from pygyro.model.layout import Layout
    nd = len(shape)
    eta = sl.make_eta(shape)
    lay = Layout("x", list(nprocs), list(order), eta, list(rc))
    P = list(nprocs) + [1] * (nd - len(nprocs))
    RC = list(rc) + [0] * (nd - len(rc))
    return {"k": "layout", "sh": list(shape), "ord": [d + 1 for d in order], "P": P, "rc": RC,
            "starts": [int(x) for x in lay.starts], "ends": [int(x) for x in lay.ends],
            "shape": [int(x) for x in lay.shape], "size": int(lay.size),
            "maxshape": [int(x) for x in lay.max_block_shape], "maxsize": int(lay.max_block_size),
            "fullshape": [int(x) for x in lay.fullShape],
            "tstarts": [[int(x) for x in lay.mpi_starts(i)] for i in range(nd)],
            "tlens": [[int(x) for x in lay.mpi_lengths(i)] for i in range(nd)]}


def _dec(v):
    return to_int(v)


def accessor_job(comm, shape, nprocs, layouts):
    """On every rank: a Grid per layout; call every accessor with every admissible argument."""
    from pygyro.model.grid import Grid
    h, eta = sl.handler_job(comm, shape, nprocs, layouts)
    nd = len(shape)
    evs = []
    sizes = []
    for name, order in layouts.items():
        lay = h.getLayout(name)
        sizes.append(int(lay.size))
        g = Grid(eta, [None] * nd, h, name, comm)
        base = {"k": "accessor", "sh": list(shape), "ord": [d + 1 for d in order],
                "starts": [int(x) for x in lay.starts], "ends": [int(x) for x in lay.ends]}

        def call(nm, arg, f, conv):
            e = dict(base)
            e["name"], e["arg"] = nm, arg
            try:
                e["res"] = conv(f())
                e["ok"] = True
            except Exception as ex:      # a refusal / crash of an accessor is data
                e["res"], e["ok"], e["err"] = [], False, "%s: %s" % (type(ex).__name__, ex)
            evs.append(e)
        for i in range(nd):
            call("getCoords", i + 1, lambda: g.getCoords(i), lambda r: [[int(a), _dec(b)] for a, b in r])
            call("getEta", i + 1, lambda: g.getEta(i), lambda r: [[int(a), _dec(b)] for a, b in r])
            call("getCoordVals", i + 1, lambda: g.getCoordVals(i), lambda r: [_dec(b) for b in r])
            call("getGlobalIdxVals", i + 1, lambda: g.getGlobalIdxVals(i), lambda r: [int(b) for b in r])
        shp = lay.shape
        corners = set()
        if all(s > 0 for s in shp):
            corners.add(tuple(0 for _ in shp))
            corners.add(tuple(s - 1 for s in shp))
            corners.add(tuple((s - 1) // 2 for s in shp))
        for c in sorted(corners):
            call("getGlobalIndices", [int(x) for x in c], lambda: g.getGlobalIndices(*c), lambda r: [int(b) for b in r])
    # the accessors must follow the grid through layout changes AND through save / restore (which changes the layout without
    # a transpose): setLayout(B), save, setLayout(C), restore -> the grid is in B again
    names = list(layouts)
    if len(names) >= 2:
        gs = Grid(eta, [None] * nd, h, names[0], comm, allocateSaveMemory=True)
        gs.getAllData()[:] = 0.0
        with sl.warnings.catch_warnings():
            sl.warnings.simplefilter("ignore")
            for b in names[1:] + names[:1]:
                for c_ in names:
                    if c_ == b:
                        continue
                    gs.setLayout(b)
                    gs.saveGridValues()
                    gs.setLayout(c_)
                    gs.restoreGridValues()
                    lay = gs.getLayout(gs.currentLayout)
                    base = {"k": "accessor", "sh": list(shape), "ord": [d + 1 for d in layouts[gs.currentLayout]],
                            "starts": [int(x) for x in lay.starts], "ends": [int(x) for x in lay.ends]}
                    for i in range(nd):
                        for nm, f, conv in (("getGlobalIdxVals", lambda: gs.getGlobalIdxVals(i), lambda r: [int(x) for x in r]),
                                            ("getCoordVals", lambda: gs.getCoordVals(i), lambda r: [_dec(x) for x in r]),
                                            ("getCoords", lambda: gs.getCoords(i), lambda r: [[int(a), _dec(x)] for a, x in r])):
                            e = dict(base)
                            e["name"], e["arg"], e["after_restore"] = nm, i + 1, True
                            try:
                                e["res"], e["ok"] = conv(f()), True
                            except Exception as ex:
                                e["res"], e["ok"], e["err"] = [], False, "%s: %s" % (type(ex).__name__, ex)
                            evs.append(e)
                    if all(x > 0 for x in lay.shape):
                        cidx = tuple(x - 1 for x in lay.shape)
                        e = dict(base)
                        e["name"], e["arg"], e["after_restore"] = "getGlobalIndices", [int(x) for x in cidx], True
                        try:
                            e["res"], e["ok"] = [int(x) for x in gs.getGlobalIndices(*cidx)], True
                        except Exception as ex:
                            e["res"], e["ok"], e["err"] = [], False, "%s: %s" % (type(ex).__name__, ex)
                        evs.append(e)
    evs.append({"k": "buffer", "buf": int(h.bufferSize), "sizes": sizes})
    return evs


def configs(rng, quick):
    """(shape, nprocs, layouts) for the accessor / buffer / exact-buffer part."""
    out = []
    std = {"flux_surface": [0, 3, 1, 2], "v_parallel": [0, 2, 1, 3], "poloidal": [3, 2, 1, 0]}
    out.append(([4, 5, 7, 8], [2, 3], std))
    out.append(([5, 6, 7, 9], [1, 2], {"v_parallel": [0, 2, 1, 3], "poloidal": [3, 2, 1, 0]}))
    out.append(([3, 4, 5], [2, 2], {"a": [0, 1, 2], "b": [0, 2, 1], "c": [2, 1, 0]}))
    out.append(([7, 5], [3], {"a": [0, 1], "b": [1, 0]}))
    # extents of very different size on the two exchanged dimensions (a padded block is max-block x max-block: a size computed from the
    # wrong dimension is too small when the distributed extent is tiny and the other one large, and the other way round)
    out.append(([2, 9, 3], [2], {"a": [0, 1, 2], "b": [1, 0, 2]}))
    out.append(([10, 3], [3], {"a": [0, 1], "b": [1, 0]}))
    out.append(([2, 3, 11, 7], [2, 2], {"flux_surface": [0, 3, 1, 2], "v_parallel": [0, 2, 1, 3], "poloidal": [3, 2, 1, 0]}))
    out.append(([9, 2, 2, 3], [2, 1], {"flux_surface": [0, 3, 1, 2], "v_parallel": [0, 2, 1, 3], "poloidal": [3, 2, 1, 0]}))
    n = 6 if quick else 40
    for _ in range(n):
        nd = rng.choice([2, 3, 4])
        shape = [rng.randint(2, 7) for _ in range(nd)]
        perms = sl.all_perms(nd)
        ndist = rng.choice([1, 2] + ([3] if nd == 4 else [])) if nd > 2 else 1     # process grids of every length the handler accepts
        k = rng.randint(2, 4)
        for _try in range(50):
            chosen = rng.sample(perms, min(k, len(perms)))
            mins = [min(shape[o[i]] for o in chosen) for i in range(ndist)]
            nprocs = [rng.randint(1, min(3, m)) for m in mins]
            lay = {"L%d" % i: o for i, o in enumerate(chosen)}
            if connected(lay, nprocs):
                out.append((shape, nprocs, lay))
                break
    return out


def connected(layouts, nprocs):
    names = list(layouts)
    def compat(a, b):
        return sum(1 for i, n in enumerate(nprocs) if n > 1 and layouts[a][i] != layouts[b][i]) < 2
    seen, todo = {names[0]}, [names[0]]
    while todo:
        x = todo.pop()
        for y in names:
            if y not in seen and compat(x, y):
                seen.add(y)
                todo.append(y)
    return len(seen) == len(names)


def swapper_tiles_job(comm, shape, nprocs):
    """the index ranges every rank owns in every layout of the driver's layout swapper (2-D group + two single-direction groups)"""
    from harness.scenarios import driver_swapper
    sw, eta = driver_swapper(comm, shape, nprocs)
    out = {}
    for name in ("v_parallel_2d", "mode_solve", "v_parallel_1d", "poloidal"):
        l = sw.getLayout(name)
        out[name] = ([int(x) for x in l.starts], [int(x) for x in l.ends], [int(x) for x in l.dims_order], [int(x) for x in l.nprocs])
    return out


def run(ctx):
    from mpi4py import MPI
    rng = random.Random(ctx.seed)
    quick = ctx.quick()
    ctx.rule = ("1-D tables: every (n,p), 1<=p<=n<=N, plus seeded large n; Layout objects: every rank coordinate of "
                "enumerated/seeded (shape, ordering, process grid); Grid accessors: every accessor x every admissible "
                "argument on every simulated rank; distinct = distinct (kind, configuration, argument) tuples; "
                "non-trivial = more than one process or a non-identity ordering (all 1-D tables with p>1)")
    # 1. the split formula against the formula-independent statement, exhaustively
    nmax = 48 if quick else 128
    cfg = ("INIT Init\nNEXT Next\nCONSTANT NMax = %d\nINVARIANT FormulaTiles\nINVARIANT FormulaOnce\nINVARIANT FormulaBalanced\n"
           "INVARIANT FormulaNonEmpty\nINVARIANT FormulaMax\nINVARIANT FloorLemma\nCHECK_DEADLOCK FALSE\n" % nmax)
    r = ctx.tlc("PartitionMC", cfg, what="formula vs statement, all 1<=p<=n<=%d" % nmax)
    if r.violated:
        raise Machinery("the transcribed split formula violates %s in the model: spec and code disagree by construction\n%s"
                        % (r.violated, r.trace_text))
    ctx.exhaustive = True
    # the same formula for ALL n >= p >= 1 (unbounded integers, SMT): PartitionApa.tla restates Start/BLen and the per-block
    # consequences (tiles 0..n, balanced, non-empty, monotone, <= MaxLen); Apalache discharges them at length 0
    if not ctx.apalache("PartitionApa", "Init", "All", 0, what="split formula, all n >= p >= 1 (unbounded)"):
        raise Machinery("PartitionApa: the split formula violates its statement for some n >= p >= 1")
    ctx.note("Apalache: split formula tiles, is balanced / non-empty / monotone for all n >= p >= 1 (unbounded integers)")
    # 2. tables of the real Layout class
    events = []
    meta = {}
    N1 = 40 if quick else 72
    for n in range(1, N1 + 1):
        for p in range(1, n + 1):
            events.append(table_event(n, p))
            meta[len(events)] = ("table1d", n, p)
    for _ in range(60 if quick else 600):
        p = rng.randint(1, 40)
        n = rng.randint(p, 10 ** rng.randint(2, 6))
        e = table_event(n, p)
        events.append(e)
        meta[len(events)] = ("table1d", n, p)
    # 3. multi-dimensional Layout objects, every rank coordinate
    nlay = 0
    for nd in (2, 3, 4):
        perms = sl.all_perms(nd)
        for _ in range(25 if quick else 250):
            shape = [rng.randint(1, 9) for _ in range(nd)]
            order = rng.choice(perms)
            ndist = rng.randint(1, max(1, nd - 1))
            nprocs = [rng.randint(1, shape[order[i]]) for i in range(ndist)]
            for rc in itertools.product(*[range(p) for p in nprocs]):
                events.append(layout_event(shape, order, nprocs, rc))
                meta[len(events)] = ("layout", tuple(shape), tuple(order), tuple(nprocs), rc)
                nlay += 1
    # 4. accessors and buffers on the simulated ranks
    for (shape, nprocs, layouts) in configs(rng, quick):
        n = int(np.prod(nprocs))
        res = MPI.run(n, accessor_job, policy="random", seed=rng.randint(0, 10 ** 6), args=(shape, nprocs, layouts))
        if not res.ok:
            ctx.violation({"kind": "accessor-setup-fails"}, "building handler/grid failed: " + res.describe(),
                          {"shape": shape, "nprocs": nprocs, "layouts": layouts})
            continue
        for rk, evs in enumerate(res.values):
            for e in evs:
                events.append(e)
                meta[len(events)] = (e["k"], e.get("name"), tuple(shape), tuple(nprocs), rk, str(e.get("arg")), str(e.get("ord")))
        # exact-size buffers suffice for every transpose
        pairs = [(a, b) for a in layouts for b in layouts]
        for usebuf in (False, True):
            res = MPI.run(n, sl.transpose_job, policy="random", seed=rng.randint(0, 10 ** 6),
                          args=(shape, nprocs, layouts, pairs, usebuf, float))
            ok = res.ok
            correct = True
            if ok:
                G = sl.tokens(shape)
                # judged in detail by C01; here only completion + correctness flag with exact buffers
                correct = all_blocks_correct(res.values, shape, nprocs, layouts)
            events.append({"k": "exactbuf", "ok": bool(ok), "correct": bool(correct), "err": res.describe()})
            meta[len(events)] = ("exactbuf", tuple(shape), tuple(nprocs), usebuf, tuple(sorted(layouts.items())) and str(layouts))
    # 5. layouts of a layout swapper (groups distributed over 2, 1 and 1 process directions): the blocks of all ranks cover the global
    # array with every index owned exactly (number of ranks / processes of that layout) times - once per replica
    for g in ([2, 3], [3, 2], [2, 2], [1, 3], [3, 1]):
        shape = [6, 7, 8]
        n = int(np.prod(g))
        res = MPI.run(n, swapper_tiles_job, policy="random", seed=rng.randint(0, 999), args=(shape, g))
        if not res.ok:
            ctx.violation({"kind": "accessor-setup-fails", "swapper": True}, "building the layout swapper failed: " + res.describe(), {"shape": shape, "nprocs": g})
            continue
        # arrays of exactly the swapper's advertised buffer size suffice for a walk through all its layouts (uneven extents: the
        # gathered blocks are padded), with and without spare buffer
        from harness import scenarios
        walk = [["v_parallel_2d", False], ["v_parallel_1d", True], ["poloidal", False], ["mode_solve", True], ["poloidal", False],
                ["v_parallel_2d", False], ["mode_solve", False], ["v_parallel_1d", False], ["mode_solve", True]]
        for shp in ([7, 5, 8], [5, 7, 5]):
            if all(a <= b for a, b in zip((g[0], g[0], g[1]), (shp[0], shp[1], shp[2]))) and g[1] <= shp[1]:
                rw = MPI.run(n, scenarios.scn_swapper, policy="random", seed=rng.randint(0, 999), args=(shp, g, walk))
                ctx.count(("swapper-exact-buffers", tuple(g), tuple(shp)))
                if not rw.ok:
                    ctx.violation({"kind": "exact-buffers-do-not-suffice", "swapper": True},
                                  "a walk through the layouts of the layout swapper with arrays of exactly bufferSize fails on process grid %s, shape %s: %s" % (
                                      g, shp, rw.describe()[:300]), {"nprocs": g, "shape": shp})
        # ... and for the two three-layout groups of the repository's own 4-D swapper test (multi-step routes inside the smaller group)
        names4 = [n_ for g_ in scenarios.GROUPS4 for n_ in g_]
        walk4 = [[rng.choice(names4), bool(k_ % 2)] for k_ in range(14)]
        for shp in ([5, 7, 5, 7], [4, 6, 5, 6]):
            if g[0] <= min(shp[0], shp[2], shp[3]) and g[1] <= min(shp[2], shp[3]):
                rw = MPI.run(n, scenarios.scn_swapper4, policy="random", seed=rng.randint(0, 999), args=(shp, g, walk4))
                ctx.count(("swapper4-exact-buffers", tuple(g), tuple(shp)))
                if not rw.ok:
                    ctx.violation({"kind": "exact-buffers-do-not-suffice", "swapper": True},
                                  "a walk through the two three-layout groups of a layout swapper with arrays of exactly bufferSize fails on process grid %s, shape %s: %s" % (
                                      g, shp, rw.describe()[:300]), {"nprocs": g, "shape": shp, "walk": walk4})
        for name in res.values[0]:
            cnt = np.zeros(shape, dtype=int)
            procs = None
            for v in res.values:
                st, en, order, P = v[name]
                procs = int(np.prod(P))
                box = [None] * 3
                for pos, d in enumerate(order):
                    box[d] = slice(st[pos], en[pos])
                cnt[tuple(box)] += 1
            want = n // max(1, procs)
            ctx.count(("swapper-tiling", tuple(g), name))
            if not (cnt == want).all():
                ctx.violation({"kind": "swapper-layout-does-not-tile", "layout": name},
                              "layout %s of the layout swapper on process grid %s: global indices are owned %s times (expected %d each: %d ranks / %d processes of "
                              "the layout)" % (name, g, sorted(set(cnt.ravel().tolist())), want, n, procs), {"nprocs": g, "layout": name})
    rej, drift = ctx.validate_trace("C02Trace", events, what="tables, layouts, accessors, buffers from the real classes")
    for i, e in enumerate(events, 1):
        m = meta[i]
        nontrivial = (m[0] == "table1d" and m[2] > 1) or m[0] != "table1d"
        ctx.count(m if nontrivial else None)
    ctx.sample(events[5])
    ctx.sample(next(e for e in events if e["k"] == "layout"))
    ctx.sample(next(e for e in events if e["k"] == "accessor" and e["name"] == "getGlobalIndices"))
    for i in drift:
        ctx.drift_report("tables of %s differ from the formula transcribed in Partition.tla" % (meta[i],))
    for i, clauses in sorted(rej.items()):
        e = events[i - 1]
        m = meta[i]
        sig = {"kind": e["k"], "clause": clauses[0]}
        if e["k"] == "accessor":
            sig["name"] = e["name"]
            sig["after_restore"] = bool(e.get("after_restore", False))
            if not e["ok"]:
                sig["error"] = e.get("err", "").split(":")[0]
        if e["k"] == "exactbuf":
            sig.update(classify_c01(m[1], m[2], e.get("err", "")))
        ctx.violation(sig, "event %s rejected by C02Trace clauses %s: %s" % (m, clauses, {k: v for k, v in e.items() if k not in ("res",)}),
                      {"event": e, "meta": m})
    ctx.extra["tables_1d"] = sum(1 for e in events if e["k"] == "table1d")
    ctx.extra["layout_objects"] = nlay
    ctx.extra["accessor_calls"] = sum(1 for e in events if e["k"] == "accessor")


def all_blocks_correct(values, shape, nprocs, layouts):
    """Compare decoded destination blocks with the slice of the token array (numpy oracle; used only for the
    C02 'exact buffers suffice' flag - the Block oracle of Layouts.tla judges transposes in C01)."""
    from pygyro.model.layout import Layout
    G = sl.tokens(shape, np.int64)
    eta = sl.make_eta(shape)
    for recs in values:
        for rec in recs:
            lay = Layout("x", list(nprocs), layouts[rec["dst"]], eta, rec["coords"])
            exp = sl.local_block(G, lay).ravel().tolist()
            if rec["block"] != exp:
                return False
    return True


def classify_c01(shape, nprocs, err):
    lead1 = len(nprocs) > 1 and nprocs[0] == 1 and nprocs[1] > 1
    return {"leading_extent_1": bool(lead1), "raises": err.split(":")[0] if err != "ok" else ""}
