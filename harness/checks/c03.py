"""C03 - redistribution across differently distributed layout groups preserves data.

Spec: Layouts/LayoutAbs (Block oracle, rank coordinates per layout), SwapperBoxMC (candidate groupings enumerated /
sampled by TLC, abstract model checked on them), C03Trace.  Conformance: every accepted candidate is driven through
random histories of LayoutSwapper.transpose on the simulated ranks; every call is validated by C03Trace.
"""
import itertools
import random
import warnings

import numpy as np

from harness.core import Machinery
from harness import simlayout as sl

LEVEL = "model_checking"
DTYPES = [float, complex, np.int64]


def lname(o):
    return "L" + "".join(str(d - 1) for d in o)


def build_args(c, int_style):
    groups = []
    nprocs = []
    n1, n2 = c["np"]
    g0 = {lname(o) + "_2d": [d - 1 for d in o] for o in sorted(map(tuple, c["g0"]))}
    groups.append(g0)
    nprocs.append([n1, n2])
    if c["g1"]:
        groups.append({lname(o) + "_a": [d - 1 for d in o] for o in c["g1"]})
        nprocs.append(n1 if int_style else [n1])
    if c["g2"]:
        groups.append({lname(o) + "_b": [d - 1 for d in o] for o in c["g2"]})
        nprocs.append(n2 if int_style else [n2])
    if c.get("g3"):          # a SECOND two-directional group, on the same grid or on the grid with its directions exchanged
        groups.append({lname(o) + "_c": [d - 1 for d in o] for o in c["g3"]})
        nprocs.append([n2, n1] if c.get("g3swap") else [n1, n2])
    return groups, nprocs


def swap_job(comm, shape, groups, nprocs, start, walk, dtype, out):
    from pygyro.model.layout import LayoutSwapper
    rk = comm.Get_rank()
    eta = sl.make_eta(shape)
    nd = len(shape)
    try:
        sw = LayoutSwapper(comm, groups, nprocs, eta, start)
    except (RuntimeError, AssertionError, ValueError, IndexError) as ex:
        out[rk].append({"refused": "%s: %s" % (type(ex).__name__, ex)})
        return
    out[rk].append({"constructed": True, "buffer": int(sw.bufferSize)})
    G = sl.tokens(shape, dtype)
    bufs = [sl.fresh(sw.bufferSize, dtype) for _ in range(3)]
    cur = start
    lc = sw.getLayout(cur)
    bufs[0][:lc.size] = sl.local_block(G, lc).ravel()
    a, b, c = 0, 1, 2
    kept = None            # layout name of an earlier source that a transpose with a buffer left intact in bufs[b]
    for step in walk:
        dst, usebuf = step[0], step[1]
        fan = len(step) > 2 and step[2] and kept is not None
        if fan:
            # fan-out: the source a buffered transpose left intact is moved AGAIN, somewhere else (the previous result is given up)
            a, b = b, a
            cur = kept
        ls, ld = sw.getLayout(cur), sw.getLayout(dst)
        before = bufs[a][:ls.size].copy()
        bufs[b][:] = sl.sentinel(dtype)
        if usebuf:
            bufs[c][:] = sl.sentinel(dtype)
        with warnings.catch_warnings():
            warnings.simplefilter("ignore")
            sw.transpose(bufs[a], bufs[b], cur, dst, bufs[c] if usebuf else None)
        kept = cur if usebuf else None
        npv = list(sw.nProcs) if not isinstance(sw.nProcs, int) else [sw.nProcs]
        mc = list(sw.mpiCoords)
        dP = [int(x) for x in ld.nprocs]
        drc = [int(x) for x in ld.ranks]
        curok = (npv == dP[:len(npv)] and all(x == 1 for x in dP[len(npv):]) and mc == drc[:len(mc)])
        out[rk].append({"k": "swap", "sh": list(shape), "do": [d + 1 for d in ld.dims_order], "dP": dP, "drc": drc,
                        "block": sl.decode(bufs[b][:ld.size]).tolist(), "ok": True, "usebuf": bool(usebuf),
                        "intact": bool((bufs[a][:ls.size] == before).all()) if usebuf else True, "cur": bool(curok),
                        "src": cur, "dst": dst})
        cur = dst
        a, b = b, a


def run_candidate(ctx, c, rng, events, meta, stats, walklen):
    from mpi4py import MPI
    int_style = rng.random() < 0.6
    groups, nprocs = build_args(c, int_style)
    names = [n for g in groups for n in g]
    start = rng.choice(names)
    walk = []
    for _ in range(walklen):
        walk.append((rng.choice(names), rng.random() < 0.5, rng.random() < 0.3))
    dtype = DTYPES[stats["n"] % 3]
    stats["n"] += 1
    n = int(np.prod(c["np"]))
    out = [[] for _ in range(n)]
    policy = rng.choice(["asc", "desc", "random", "rr"])
    seed = rng.randint(0, 10 ** 6)
    eager = rng.random() < 0.5
    res = MPI.run(n, swap_job, policy=policy, seed=seed, eager=eager,
                  args=(c["sh"], groups, nprocs, start, walk, dtype, out))
    m0 = {"cfg": {"sh": c["sh"], "groups": groups, "nprocs": nprocs}, "start": start, "walk": walk,
          "dtype": np.dtype(dtype).name, "schedule": {"policy": policy, "seed": seed, "eager": eager}}
    refused = [o for o in out if o and "refused" in o[0]]
    if refused:
        if len(refused) != n:
            ctx.violation({"kind": "constructor-refuses-on-some-ranks-only"}, "swapper constructor: %s" % out, m0)
        stats["refused"] += 1
        return
    stats["accepted"] += 1
    steps = max(len(o) - 1 for o in out)
    for s in range(steps):
        rcs = []
        for rk in range(n):
            if len(out[rk]) > s + 1:
                e = dict(out[rk][s + 1])
                e.pop("src"), e.pop("dst")
                events.append(e)
                meta.append(dict(m0, rank=rk, step=s))
                rcs.append(e["drc"])
        if len(rcs) == n:
            events.append({"k": "cover", "dP": out[0][s + 1]["dP"], "rcs": rcs})
            meta.append(dict(m0, rank=-1, step=s))
    if not res.ok:
        # the call that was in flight when the job failed
        s = min(len(o) - 1 for o in out)
        dst = walk[s][0] if s < len(walk) else "?"
        events.append({"k": "swap", "sh": c["sh"], "do": [1], "dP": [1], "drc": [0], "block": [], "ok": False,
                       "usebuf": walk[s][1] if s < len(walk) else False, "intact": False, "cur": False, "err": res.describe()})
        meta.append(dict(m0, rank=-1, step=s, failing_step={"from": (walk[s - 1][0] if s > 0 else start), "to": dst}))


def run(ctx):
    rng = random.Random(ctx.seed)
    quick = ctx.quick()
    ctx.rule = ("candidate groupings = rows of SwapperBoxMC (2-D group of 1-2 orderings on an (n1,n2) grid + optional groups on "
                "each single process direction; 3-D and 4-D shapes; n1,n2 in 1..3 incl. equal and 1) that the LayoutSwapper "
                "constructor accepts; each is driven through a random history of transposes among all its layouts (buffer given or "
                "not, float/complex/int tokens, random schedules); distinct = (grouping, shape, history step); non-trivial = more than one process")
    runs = [("3-D ext<=3", 3, 3, 14 if quick else 0), ("4-D ext<=2", 4, 2, 6 if quick else 120)]
    if not quick:
        runs.append(("3-D ext<=4 sampled", 3, 4, 60))
    runs.append(("3-D ext<=3, over-decomposed grids admitted", 3, 3, 8 if quick else 80))
    cands = []
    for what, nd, ext, k in runs:
        cfg = ("INIT Init\nNEXT Next\nCONSTANTS ND = %d MaxExt = %d MaxP = 3 SampleK = %d\nINVARIANT EveryIndexOnce\n"
               "INVARIANT Dump\nCHECK_DEADLOCK FALSE\n" % (nd, ext, k))
        if "over-decomposed" in what:
            cfg += "CONSTANT GridFits <- AnyFits\n"
        r = ctx.tlc("SwapperBoxMC", cfg, what=what, seed=ctx.seed + 3, timeout=7200)
        if r.violated:
            raise Machinery("abstract layout model violates %s: %s" % (r.violated, r.trace_text))
        ctx.log("SwapperBoxMC %s: %d candidates in %.1fs" % (what, len(r.rows), r.wall))
        cands += r.rows
    # the implementation-shaped moves between layout groups (scatter / Allgather + per-rank unpack / local move on numpy views)
    # refine LayoutAbs on their box
    for what, nd, ext, mp in ([("3-D ext<=3, grids to 3x3", 3, 3, 3)] if quick else [("3-D ext<=4, grids to 3x3", 3, 4, 3), ("4-D ext<=2, grids to 2x2", 4, 2, 2)]):
        r = ctx.tlc("SwapperMC", "INIT Init\nNEXT Next\nCONSTANTS ND = %d MaxExt = %d MaxP = %d\nINVARIANT NoError\nINVARIANT DestCorrect\nINVARIANT SourceIntact\nCHECK_DEADLOCK FALSE\n" % (nd, ext, mp),
                    what="Swapper refines LayoutAbs: " + what, timeout=7200, big=not quick)
        ctx.log("SwapperMC %s: %d states in %.1fs %s" % (what, r.distinct, r.wall, r.violated or "ok"))
        if r.violated:
            ctx.drift_report("Swapper.tla (transcription of the moves between layout groups) violates %s on '%s': %s" % (r.violated, what, (r.trace_text or "")[:600]))
    # groupings with two two-directional groups (same grid, or directions exchanged): accepted or refused by the constructor
    perms3 = [list(p) for p in itertools.permutations([1, 2, 3])]
    for _ in range(24 if quick else 240):
        n1, n2 = rng.choice([(2, 2), (2, 3), (3, 2), (3, 3), (1, 2), (2, 1)])
        sh = [rng.randint(max(n1, n2), 6) for _ in range(3)]
        o0, o3 = rng.choice(perms3), rng.choice(perms3)
        cands.append({"nd": 3, "sh": sh, "np": [n1, n2], "g0": [o0] + ([rng.choice(perms3)] if rng.random() < 0.3 else []),
                      "g1": [rng.choice(perms3)] if rng.random() < 0.4 else [], "g2": [], "g3": [o3], "g3swap": rng.random() < 0.5, "two2d": True})
    # the repository's own 4-D swapper test: two groups of THREE layouts each (multi-step routes inside a group, with and without
    # buffer), even and uneven sizes
    for sh in ([4, 6, 5, 6], [5, 7, 5, 7]):
        for npg in ([2, 3], [2, 2], [3, 2]):
            cands.append({"nd": 4, "sh": sh, "np": npg, "g0": [[1, 4, 2, 3], [1, 3, 2, 4], [4, 3, 2, 1]],
                          "g1": [[1, 4, 2, 3], [3, 4, 2, 1], [3, 2, 4, 1]], "g2": [], "repo_test": True})
    # the driver's own grouping on several shapes / grids
    for sh in ([4, 5, 6], [5, 7, 6], [6, 6, 6], [3, 9, 4]):
        for n1 in (1, 2, 3):
            for n2 in (1, 2, 3):
                if (n1 <= min(sh[0], sh[1]) and n2 <= min(sh[2], sh[1])) or sh == [3, 9, 4]:       # [3,9,4]: also over-decomposed
                    cands.append({"nd": 3, "sh": sh, "np": [n1, n2], "g0": [[1, 3, 2], [2, 3, 1]], "g1": [[1, 3, 2]],
                                  "g2": [[3, 2, 1]], "driver": True})
    rng.shuffle(cands)
    cap = 700 if quick else len(cands)
    events, meta = [], []
    stats = {"n": 0, "refused": 0, "accepted": 0}
    for c in cands[:cap] + [x for x in cands[cap:] if x.get("driver") or x.get("repo_test") or x.get("two2d")]:
        run_candidate(ctx, c, rng, events, meta, stats, walklen=14 if c.get("repo_test") else (5 if quick else 8))
    ctx.extra.update({"candidates": len(cands), "accepted_by_constructor": stats["accepted"], "refused_by_constructor": stats["refused"]})
    ctx.log("candidates tried %d: accepted %d, refused %d; %d events" % (stats["n"], stats["accepted"], stats["refused"], len(events)))
    if stats["accepted"] < 50:
        raise Machinery("vacuity: only %d candidate groupings were accepted" % stats["accepted"])
    B = 6000
    for s in range(0, len(events), B):
        ev, mt = events[s:s + B], meta[s:s + B]
        rej, _ = ctx.validate_trace("C03Trace", ev, what="recorded swapper calls %d..%d" % (s, s + len(ev)))
        for j, (e, m) in enumerate(zip(ev, mt), 1):
            nproc = int(np.prod(m["cfg"]["nprocs"][0]))
            ctx.count(None if nproc == 1 else (str(m["cfg"]), m["start"], str(m["walk"][:m["step"] + 1]), m["rank"], e["k"]))
            if j in rej:
                np0 = m["cfg"]["nprocs"][0]
                sig = {"kind": e["k"], "clause": rej[j][0], "equal_extents": bool(np0[0] == np0[1]),
                       "raises": (e.get("err", "").split(" raised ")[-1].split(":")[0] if not e.get("ok", True) else "")}
                ctx.violation(sig, "swapper history %s step %d rank %d rejected by C03Trace clauses %s %s" % (
                    {k: m[k] for k in ("cfg", "start", "walk", "dtype", "schedule")}, m["step"], m["rank"], rej[j], e.get("err", "")),
                    {"event": e, "meta": m})
    ctx.sample({"meta": meta[0], "event": events[0]})
    ctx.sample({"meta": meta[-1]})
