"""C04 - grid layout changes and save/restore behave like a single global array.

Spec: GridBuffers (physical arrays + reference model), GridBuffersMC (exhaustive state graph, all operation paths up to a
bound printed for replay), C04Trace (steps recorded histories through GridBuffers' actions; Block oracle for the data).
"""
import random

import numpy as np

from harness.core import Machinery
from harness import simlayout as sl

LEVEL = "model_checking"
NAMES3 = {"A": [0, 1, 2], "B": [0, 2, 1], "C": [2, 1, 0]}           # B <-> C needs two hops on a 2-D process grid
NAMES4 = {"A": [0, 3, 1, 2], "B": [0, 2, 1, 3], "C": [3, 2, 1, 0]}     # the driver's flux_surface / v_parallel / poloidal
# five layouts on a 2x2 grid in which A <-> B needs three hops (odd multi-hop route with the spare buffer)
# the driver's potential grid: 2-D group {A: v_parallel_2d, B: mode_solve}, single-direction groups {C: v_parallel_1d}, {D: poloidal}
NAMESG = {"A": [0, 2, 1], "B": [1, 2, 0], "C": [0, 2, 1], "D": [2, 1, 0]}
NAMESH = {"A": [2, 1, 0], "B": [0, 1, 2], "C": [0, 2, 1], "D": [1, 2, 0]}        # with swapper "groups2"
NAMES5 = {"A": [0, 1, 2, 3], "C": [0, 3, 2, 1], "D": [1, 3, 2, 0], "E": [1, 3, 0, 2], "B": [1, 2, 3, 0]}
CONFIGS = [([4, 3, 5, 4], [2, 2], NAMES5), ([4, 6, 5], [2, 2], NAMESG), ([5, 6, 6], [2, 3], NAMESG), ([4, 5, 6], [2, 2], NAMES3), ([3, 4, 5], [1, 1], NAMES3), ([5, 4, 6], [2, 1], NAMES3), ([4, 6, 5], [1, 2], NAMES3),
           ([6, 5, 7], [3, 2], NAMES3), ([4, 4, 5, 6], [2, 2], NAMES4), ([3, 5, 4, 6], [1, 3], NAMES4), ([5, 4, 4, 5], [2, 1], NAMES4),
           # over-decomposed grids: more processes than points along a direction in SOME layouts (blocks of length 0)
           ([2, 5, 4], [3, 2], NAMES3), ([5, 2, 3, 2], [2, 3], NAMES4),
           # ... and with data ranks that own nothing in ANY layout (they must still take part in every collective)
           ([1, 4, 1], [2, 2], NAMES3),
           # a layout swapper whose groups hold two layouts each: routes of three steps across the groups
           ([4, 6, 5], [2, 3], NAMESH), ([5, 4, 6], [3, 2], NAMESH),
           # the driver's potential grid with extents that do not divide: the local block of the destination of a two-step change is
           # LARGER than that of its source on some rank
           ([5, 7, 6], [2, 1], NAMESG), ([7, 11, 4], [3, 1], NAMESG)]


def mc_cfg(hassave, maxlen, maxver, dump, view, intact="IntactNone"):
    s = ("INIT Init\nNEXT Next\nCONSTANTS LayoutNames = {\"A\",\"B\",\"C\"} HasSave = %s MaxLen = %d MaxVer = %d IntactPairs <- %s "
         "DumpPaths = %s\nINVARIANT VisibleIsModel\nINVARIANT SaveProtected\nINVARIANT IndicesDistinct\nINVARIANT SavedIffFlag\n"
         "INVARIANT NoSaveMemoryNeverTouched\nINVARIANT Dump\nCHECK_DEADLOCK FALSE\n"
         % ("TRUE" if hassave else "FALSE", maxlen, maxver, intact, "TRUE" if dump else "FALSE"))
    if view:
        s += "VIEW View\n"
    return s


def grid_job(comm, shape, nprocs, layouts, hassave, dtype, histories, out, swapper):
    from pygyro.model.grid import Grid
    rk = comm.Get_rank()
    nd = len(shape)
    eta = sl.make_eta(shape)
    if swapper == "groups":
        # the driver's potential grid: a 2-D group and two single-direction groups joined by a LayoutSwapper
        from pygyro.model.layout import LayoutSwapper
        grp = [{"A": layouts["A"], "B": layouts["B"]}, {"C": layouts["C"]}, {"D": layouts["D"]}]
        h = LayoutSwapper(comm, grp, [list(nprocs), nprocs[0], nprocs[1]], eta, "B")
    elif swapper == "groups2":
        # two groups of two layouts each (on (n1, n2) and on n1): A <-> D needs three steps through both groups
        from pygyro.model.layout import LayoutSwapper
        grp = [{"A": layouts["A"], "B": layouts["B"]}, {"C": layouts["C"], "D": layouts["D"]}]
        h = LayoutSwapper(comm, grp, [list(nprocs), nprocs[0]], eta, "A")
    elif swapper:
        from pygyro.model.layout import LayoutSwapper
        h = LayoutSwapper(comm, [layouts], [list(nprocs)], eta, list(layouts)[0])
    else:
        h, _ = sl.handler_job(comm, shape, nprocs, layouts)
    P = list(nprocs) + [1] * (nd - len(nprocs))
    for hi, hist in enumerate(histories):
        P = None
        l0 = hist[0]["lay"]
        g = Grid(eta, [None] * nd, h, l0, comm, dtype=dtype, allocateSaveMemory=hassave)
        for a in getattr(g, "_my_data", []):
            a[:] = sl.sentinel(dtype)
        lay = g.getLayout(l0)
        g.getAllData()[:] = sl.local_block(sl.tokens(shape, dtype, 0), lay)
        # process vector and rank coordinates of this rank in every layout (they differ between the groups of a swapper)
        PR = {n: {"P": [int(x) for x in g.getLayout(n).nprocs], "rc": [int(x) for x in g.getLayout(n).ranks]} for n in layouts}
        ev = [{"k": "reset", "sh": list(shape), "PR": PR, "lays": {n: [d + 1 for d in o] for n, o in layouts.items()},
               "l0": l0, "block": sl.decode(g.getAllData()).tolist(), "hist": hi}]
        out[rk].append(ev)
        nextver = 1
        for op in hist[1:]:
            e = {"k": "op", "op": op["op"], "lay": op["lay"] if op["op"] == "setLayout" else "", "refused": False, "ver": 0}
            try:
                if op["op"] == "setLayout":
                    with sl.warnings.catch_warnings():
                        sl.warnings.simplefilter("ignore")
                        g.setLayout(op["lay"])
                elif op["op"] == "write":
                    e["ver"] = nextver
                    g.getAllData()[:] = sl.local_block(sl.tokens(shape, dtype, nextver), g.getLayout(g.currentLayout))
                    nextver += 1
                elif op["op"] == "save":
                    g.saveGridValues()
                elif op["op"] == "restore":
                    g.restoreGridValues()
                elif op["op"] == "free":
                    g.freeGridSave()
            except AssertionError:
                e["refused"] = True
            except Exception as ex:
                if op["op"] in ("save", "restore", "free"):
                    e["refused"] = True       # any refusal counts (DESIGN section 6, rule 3)
                    e["exc"] = type(ex).__name__
                else:
                    raise
            e["name"] = g.currentLayout
            e["block"] = sl.decode(g.getAllData()).tolist()
            e["di"], e["bi"], e["si"] = int(getattr(g, "_dataIdx", -1)), int(getattr(g, "_buffIdx", -1)), int(getattr(g, "_saveIdx", -1))
            e["ns"] = bool(getattr(g, "notSaved", True))
            ev.append(e)


def random_history(rng, n, names):
    h = [{"op": "init", "lay": rng.choice(names)}]
    for _ in range(n):
        r = rng.random()
        if r < 0.4:
            h.append({"op": "setLayout", "lay": rng.choice(names)})
        elif r < 0.6:
            h.append({"op": "write", "lay": ""})
        else:
            h.append({"op": rng.choice(["save", "restore", "free"]), "lay": ""})
    return h


DRIVER = [{"op": "init", "lay": "B"}, {"op": "setLayout", "lay": "A"}, {"op": "write", "lay": ""}, {"op": "save", "lay": ""},
          {"op": "write", "lay": ""}, {"op": "setLayout", "lay": "B"}, {"op": "write", "lay": ""}, {"op": "setLayout", "lay": "C"},
          {"op": "write", "lay": ""}, {"op": "setLayout", "lay": "B"}, {"op": "setLayout", "lay": "A"}, {"op": "restore", "lay": ""},
          {"op": "write", "lay": ""}, {"op": "setLayout", "lay": "B"}, {"op": "save", "lay": ""}, {"op": "setLayout", "lay": "C"},
          {"op": "free", "lay": ""}, {"op": "setLayout", "lay": "A"}]


def run(ctx):
    from mpi4py import MPI
    rng = random.Random(ctx.seed)
    quick = ctx.quick()
    ctx.rule = ("histories = every operation path of length L of GridBuffersMC (accepted and refused calls; printed by TLC) spread "
                "round-robin over grid configurations, plus seeded random histories of length 10-40 and the driver's own sequence; each "
                "is executed on real Grids on every simulated rank (with / without save memory, float / complex, LayoutHandler and "
                "LayoutSwapper managers); distinct = (configuration, save memory, dtype, history, rank); non-trivial = history contains "
                "a layout change or a save")
    paths = {}
    for hs in (True, False):
        r = ctx.tlc("GridBuffersMC", mc_cfg(hs, 40, 4 if quick else 5, False, True, "IntactAB"),
                    what="state graph, save memory %s" % hs, coverage=True)
        if r.violated:
            raise Machinery("GridBuffers violates its own invariant %s:\n%s" % (r.violated, r.trace_text))
        L = 4 if quick else 5
        r2 = ctx.tlc("GridBuffersMC", mc_cfg(hs, L if hs else L - 1, 3, True, False), what="all paths of length %d, save memory %s" % (L, hs))
        if r2.violated:
            raise Machinery("GridBuffers violates its own invariant %s:\n%s" % (r2.violated, r2.trace_text))
        paths[hs] = [x["hist"] for x in r2.rows]
        ctx.log("GridBuffersMC save=%s: %d reachable states; %d paths" % (hs, r.distinct, len(paths[hs])))
    ctx.exhaustive = True
    # unbounded backing of the bounded state graph: an inductive invariant of the same actions, discharged symbolically by
    # Apalache (any number of writes / versions; GridBuffersApa.tla is the typed copy of GridBuffers.tla's actions)
    for (init, inv, n, what) in (("Init", "IndInv", 0, "Init => IndInv"), ("IndInit", "IndInv", 1, "IndInv /\\ Next => IndInv'"),
                                 ("IndInit", "Consequences", 0, "IndInv => invariants of GridBuffers.tla")):
        if not ctx.apalache("GridBuffersApa", init, inv, n, cinit="CInit", what=what):
            raise Machinery("GridBuffersApa: %s does not hold (the inductive invariant of the buffer model is wrong)" % what)
    ctx.note("Apalache: IndInv of GridBuffersApa is inductive (Init => IndInv; IndInv /\\ Next => IndInv'; IndInv => the five "
             "invariants of GridBuffers.tla) - unbounded in versions and history length")
    events, meta = {True: [], False: []}, {True: [], False: []}
    nhist = 0
    for hs in (True, False):
        hists = list(paths[hs])
        rng.shuffle(hists)
        if quick:
            hists = hists[:1500 if hs else 300]
        nrand = 40 if quick else 600
        randoms = nrand
        hists.append(DRIVER)
        # spread histories over configurations
        jobs = []
        per = {}
        for i, h in enumerate(hists):
            per.setdefault(i % len(CONFIGS), []).append(h)
        per.setdefault(0, []).append(DRIVER)
        for ci, hl in per.items():
            shape, nprocs, layouts = CONFIGS[ci]
            # seeded random histories over ALL layout names of this configuration
            hl = hl + [random_history(rng, rng.randint(10, 40), sorted(layouts)) for _ in range(max(2, randoms // len(CONFIGS)))]
            for dtype in (float, complex):
                sub = hl[0::2] if dtype is float else hl[1::2]
                if ci == 8:
                    sub = sub + [DRIVER]
                if not sub:
                    continue
                swapper = "groups" if layouts is NAMESG else "groups2" if layouts is NAMESH else (ci % 3 == 2 and ci > 2)
                n = int(np.prod(nprocs))
                out = [[] for _ in range(n)]
                res = MPI.run(n, grid_job, policy=rng.choice(["asc", "desc", "random", "rr"]), seed=rng.randint(0, 10 ** 6),
                              eager=rng.random() < 0.5, args=(shape, nprocs, layouts, hs, dtype, sub, out, swapper))
                m0 = {"shape": shape, "nprocs": nprocs, "layouts": layouts, "save": hs, "dtype": np.dtype(dtype).name, "swapper": swapper}
                for rk in range(n):
                    for ev in out[rk]:
                        hi = ev[0].pop("hist")
                        for j, e in enumerate(ev):
                            events[hs].append(e)
                            meta[hs].append(dict(m0, rank=rk, history=sub[hi], step=j))
                nhist += len(sub)
                if not res.ok:
                    ctx.violation({"kind": "operation-raises", "err": res.describe().split(":")[0]},
                                  "grid history job failed: %s (config %s)" % (res.describe(), m0), {"meta": m0, "histories": sub[:3]})
    for hs in (True, False):
        B = 8000
        evs, mts = events[hs], meta[hs]
        # cut batches at reset events
        s = 0
        while s < len(evs):
            t = min(len(evs), s + B)
            while t < len(evs) and evs[t]["k"] != "reset":
                t += 1
            ev, mt = evs[s:t], mts[s:t]
            consts = "CONSTANTS LayoutNames = {\"A\",\"B\",\"C\",\"D\",\"E\"} HasSave = %s\nINVARIANT TVisibleIsModel\nINVARIANT TSaveProtected\nINVARIANT TIndices\n" % ("TRUE" if hs else "FALSE")
            rej, drift = ctx.validate_trace("C04Trace", ev, what="grid histories save=%s events %d..%d" % (hs, s, t), consts=consts)
            for j, (e, m) in enumerate(zip(ev, mt), 1):
                nontriv = any(o["op"] in ("setLayout", "save") for o in m["history"][1:])
                ctx.count((str(m["shape"]), str(m["nprocs"]), m["save"], m["dtype"], m["swapper"], str(m["history"]), m["rank"], m["step"]) if nontriv else None)
                if j in rej:
                    op = m["history"][m["step"]]
                    sig = {"kind": "grid-op", "clause": rej[j][0], "op": op["op"], "save_memory": hs}
                    ctx.violation(sig, "history %s step %d (%s) on rank %d, config %s: rejected by C04Trace clauses %s" % (
                        m["history"], m["step"], op, m["rank"], {k: m[k] for k in ("shape", "nprocs", "save", "dtype", "swapper")}, rej[j]),
                        {"event": {k: v for k, v in e.items() if k != "block"}, "meta": m})
            for j in drift[:3]:
                ctx.drift_report("buffer indices / notSaved flag differ from GridBuffers at %s step %d" % (mt[j - 1]["history"], mt[j - 1]["step"]))
            s = t
    ctx.extra["histories_executed"] = nhist
    ctx.sample({"history": DRIVER, "note": "the driver's own sequence (save in flux_surface, layout changes, restore)"})
    ctx.sample({"history": paths[True][0]})
    ctx.sample({"meta": {k: v for k, v in meta[True][5].items()}, "event": {k: v for k, v in events[True][5].items() if k != "block"}})
