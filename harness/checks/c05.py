"""C05 - simulation results do not depend on the process decomposition.

Spec: TimeStep (the driver's time loop statement by statement over three grids, operator layout assertions, save/restore
discipline, ParamIsOwn), C05Trace.  Conformance: the real fullSimulation.main() runs on prescribed process grids
(compute_2d_process_grid overridden from the harness side), instrumented at public methods; every statement is stepped
through TimeStep, every slice call is judged by ParamIsOwn, and the assembled global fields (initial distribution, f and phi
after the step) are compared with the serial run.
"""
import concurrent.futures
import json
import os
import random
import shutil
import subprocess
import sys
import tempfile

import numpy as np

from harness.core import Machinery, VERIF
from harness import scenarios, simlayout as sl
from harness.scenarios import STD

LEVEL = "model_checking"
NPTS = [6, 8, 9, 8]
GRIDS_Q = [[1, 1], [1, 2], [2, 1], [2, 2], [1, 3], [3, 1], [2, 3], [4, 1]]
GRIDS_T = GRIDS_Q + [[3, 2], [1, 4], [4, 2], [2, 4], [3, 3], [6, 1], [1, 8]]


def drv(job, **extra_env):
    env = dict(os.environ, VERIF_REPO=os.environ.get("VERIF_REPO", "/repo"), PYTHONHASHSEED="0", **extra_env)
    p = subprocess.run([sys.executable, "-m", "harness.drv05"], input=json.dumps(job), capture_output=True, text=True, cwd=VERIF,
                       env=env, timeout=3600)
    if p.returncode != 0:
        raise Machinery("driver subprocess failed: " + p.stderr[-2000:])
    return json.loads(p.stdout)


def read(folder, name):
    from harness import h5emu
    p = os.path.join(folder, name)
    if not os.path.exists(p):
        return None
    with h5emu._real_File(p, "r") as f:
        return f["dset"][...], tuple(int(x) for x in f["dset"].attrs["Layout"])


def compare(a, b):
    """-> (same, relative deviation); equal up to a few ulp of the field's magnitude"""
    if a is None or b is None:
        return False, -1.0
    (x, lx), (y, ly) = a, b
    if lx != ly or x.shape != y.shape:
        return False, -1.0
    scale = float(np.max(np.abs(y))) or 1.0
    dev = float(np.max(np.abs(x - y))) / scale
    return bool(dev <= 1e-13), dev


GENERIC = {"kTe": 0.35, "CTi": 0.9, "CTe": 1.2, "deltaRTe": 1.2, "deltaRN0": 2.5, "deltaR": 5.0, "vMin": -6.1, "n": 2}


def setup_job(comm, cfile, layout, folder):
    from pygyro.initialisation.setups import setupCylindricalGrid
    with sl.warnings.catch_warnings():
        sl.warnings.simplefilter("ignore")
        g, c, t = setupCylindricalGrid(layout=layout, constantFile=cfile, comm=comm)
    g.writeH5Dataset(folder, 0, "init_" + layout)
    return True


def qn_job(comm, nprocs, npts, seed, out):
    """The quasi-neutrality pipeline of the driver on a density with a NON-ZERO flux-surface average (the standard perturbation
    averages to zero over theta): modes -> per-mode solve -> inverse transform, on the given process grid."""
    from pygyro.model.grid import Grid
    from pygyro.model.layout import getLayoutHandler, LayoutSwapper
    from pygyro.poisson.poisson_solver import QuasiNeutralitySolver
    from pygyro.initialisation.constants import Constants
    from pygyro import splines as spl
    rk = comm.Get_rank()
    c = Constants()
    dom = [[c.rMin, c.rMax], [0, 2 * np.pi], [c.zMin, c.zMax]]
    per = [False, True, True]
    nk = [n + 1 + 3 * (int(p) - 1) for n, p in zip(npts, per)]
    bs = [spl.BSplines(spl.make_knots(np.linspace(*l, num=k), 3, p), 3, p, True) for l, k, p in zip(dom, nk, per)]
    eta = [b.greville for b in bs]
    grp = [{"v_parallel_2d": [0, 2, 1], "mode_solve": [1, 2, 0]}, {"v_parallel_1d": [0, 2, 1]}, {"poloidal": [2, 1, 0]}]
    rem_phi = LayoutSwapper(comm, grp, [list(nprocs), nprocs[0], nprocs[1]], eta, "mode_solve")
    rem_rho = getLayoutHandler(comm, grp[0], list(nprocs), eta)
    phi = Grid(eta, bs, rem_phi, "mode_solve", comm, dtype=np.complex128)
    rho = Grid(eta, bs, rem_rho, "v_parallel_2d", comm, dtype=np.complex128)
    R = np.random.RandomState(seed).uniform(0.2, 1.0, npts)          # global density (r, theta, z), positive: non-zero average
    lay = rem_rho.getLayout("v_parallel_2d")
    rho.getAllData()[:] = np.transpose(R, (0, 2, 1))[lay.starts[0]:lay.ends[0], lay.starts[1]:lay.ends[1], :]
    for chi in (0, 1):
        qn = QuasiNeutralitySolver(eta, 7, bs[0], c, chi=chi)
        r2 = Grid(eta, bs, rem_rho, "v_parallel_2d", comm, dtype=np.complex128)
        r2.getAllData()[:] = rho.getAllData()
        phi2 = Grid(eta, bs, rem_phi, "mode_solve", comm, dtype=np.complex128)
        qn.getModes(r2)
        r2.setLayout("mode_solve")
        qn.solveEquation(phi2, r2)
        phi2.setLayout("v_parallel_2d")
        qn.findPotential(phi2)
        lp = rem_phi.getLayout("v_parallel_2d")
        out[rk].append((chi, [int(x) for x in lp.starts], [int(x) for x in lp.ends], np.array(phi2.getAllData()).copy()))


def ops_job(comm, cfile, nprocs, seed, out):
    """Every public grid-level entry point of the advection operators, including the ones the driver does not call
    (PoloidalAdvection.gridStep_SplinesUnchanged after gridStep; the keep-gradient v-parallel step after a gradient-computing
    one), on the given process grid, with a random potential: f after each stage, per rank."""
    from pygyro.initialisation import setups
    from pygyro.model.grid import Grid
    from pygyro.model.layout import LayoutSwapper
    from pygyro.advection.advection import FluxSurfaceAdvection, VParallelAdvection, PoloidalAdvection, ParallelGradient
    rk = comm.Get_rank()
    setups.compute_2d_process_grid = lambda npts, size: tuple(nprocs)
    with sl.warnings.catch_warnings():
        sl.warnings.simplefilter("ignore")
        f, c, _ = setups.setupCylindricalGrid(layout="v_parallel", constantFile=cfile, comm=comm, allocateSaveMemory=True)
        npr = f.getLayout(f.currentLayout).nprocs[:2]
        grp = [{"v_parallel_2d": [0, 2, 1], "mode_solve": [1, 2, 0]}, {"v_parallel_1d": [0, 2, 1]}, {"poloidal": [2, 1, 0]}]
        rem = LayoutSwapper(comm, grp, [npr, npr[0], npr[1]], f.eta_grid[:3], "v_parallel_2d")
        phi = Grid(f.eta_grid[:3], f.getSpline(slice(0, 3)), rem, "v_parallel_2d", comm, dtype=np.complex128)
        npts = [len(e) for e in f.eta_grid]
        r, q, z = np.meshgrid(f.eta_grid[0], f.eta_grid[1], f.eta_grid[2], indexing="ij")
        R = np.random.RandomState(seed).uniform(-1.0, 1.0, npts[:3]) * 0.05 + 0.3 * np.cos(2 * q + 0.01 * z) * np.sin(r / 3.0)
        lay = rem.getLayout("v_parallel_2d")
        phi.getAllData()[:] = np.transpose(R, (0, 2, 1))[lay.starts[0]:lay.ends[0], lay.starts[1]:lay.ends[1], lay.starts[2]:lay.ends[2]]
        dt = c.dt
        flux = FluxSurfaceAdvection(f.eta_grid, f.get2DSpline(), f.getLayout("flux_surface"), 0.5 * dt, c)
        vpar = VParallelAdvection(f.eta_grid, f.getSpline(3), c)
        pol = PoloidalAdvection(f.eta_grid, f.getSpline(slice(1, None, -1)), c)
        pgv = np.empty([f.getLayout("v_parallel").shape[0], c.npts[2], c.npts[1]])
        pg = ParallelGradient(f.getSpline(1), f.eta_grid, rem.getLayout("v_parallel_1d"), c)

        def snap(stage):
            l = f.getLayout(f.currentLayout)
            out[rk].append((stage, [int(x) for x in l.dims_order], [int(x) for x in l.starts], [int(x) for x in l.ends], np.array(f.getAllData()).copy()))
        f.setLayout("poloidal")
        phi.setLayout("poloidal")
        pol.gridStep(f, phi, 0.5 * dt)
        snap("poloidal gridStep")
        pol.gridStep_SplinesUnchanged(f, dt)
        snap("poloidal gridStep_SplinesUnchanged after gridStep")
        f.setLayout("v_parallel")
        phi.setLayout("v_parallel_1d")
        vpar.gridStep(f, phi, pg, pgv, 0.5 * dt)
        snap("v-parallel gridStep")
        vpar.gridStepKeepGradient(f, pgv, 0.5 * dt)
        snap("v-parallel gridStepKeepGradient after gridStep")
        f.setLayout("flux_surface")
        flux.gridStep(f)
        snap("flux-surface gridStep")


def run(ctx):
    from mpi4py import MPI
    from harness import h5emu
    h5emu.install()
    rng = random.Random(ctx.seed)
    quick = ctx.quick()
    grids = GRIDS_Q if quick else GRIDS_T
    ctx.rule = ("runs = (rotational transform in {0.8, 0}, process grid in %s, schedule) of the real driver for %d step(s) on a %s grid "
                "(uneven blocks), plus set-up in each of the three starting layouts on every process grid; every operator slice call "
                "is judged by ParamIsOwn, every assembled field against the serial run; distinct = (iota, process grid, operator "
                "invocation, rank) and (iota, process grid, field); non-trivial = more than one process" % (grids, 1 if quick else 2, NPTS))
    r = ctx.tlc("TimeStep", "INIT Init\nNEXT Next\nCONSTANT MaxSteps = 4\nINVARIANT NoAssertionFails\nINVARIANT LoopInvariant\n"
                "INVARIANT RestoreIsFluxSurface\nCHECK_DEADLOCK FALSE\n", what="time loop, 4 iterations", workers=1)
    if r.violated:
        raise Machinery("TimeStep.tla violates %s:\n%s" % (r.violated, r.trace_text))
    work = tempfile.mkdtemp(prefix="c05_")
    events, meta = [], []
    try:
        dt = scenarios.CONSTANTS["dt"]
        nsteps = 1 if quick else 2
        jobs = []
        for iota in (0.8, 0.0):
            cfile = scenarios.write_constants(os.path.join(work, "c_%s.json" % iota), npts=NPTS, iotaVal=iota,
                                              eps=0.05 if iota else 0.01, m=3 if iota else 2, **({} if iota else GENERIC))
            for g in grids:
                jobs.append((iota, g, {"work": os.path.join(work, "i%s_%d_%d" % (iota, g[0], g[1])), "cfile": cfile, "S": 5, "nprocs": g,
                                       "tEnd": nsteps * dt, "folder": "F", "policy": rng.choice(["asc", "desc", "random", "rr"]),
                                       "seed": rng.randint(0, 10 ** 6), "eager": rng.random() < 0.5}))
        with concurrent.futures.ThreadPoolExecutor(max_workers=12) as ex:
            futs = {ex.submit(drv, j): (iota, tuple(g)) for iota, g, j in jobs}
            res = {futs[f]: f.result() for f in concurrent.futures.as_completed(futs)}
        for iota, g, j in jobs:
            o = res[(iota, tuple(g))]
            m0 = {"iota": iota, "nprocs": g, "npts": NPTS, "schedule": {k: j[k] for k in ("policy", "seed", "eager")}}
            events.append({"k": "start", "grid": "%dx%d" % tuple(g)})
            meta.append(dict(m0, what="start"))
            for st in o["stmts"]:
                events.append({"k": "stmt", "op": st[0], "g": st[1], "to": st[2]})
                meta.append(dict(m0, what="stmt %s" % st))
            if not o["stmts_same_on_all_ranks"]:
                events.append({"k": "field", "what": "statements-identical-on-all-ranks", "ok": True, "same": False})
                meta.append(dict(m0, what="statement sequences differ between ranks"))
            seen = {}
            for s in o["slices"]:
                key = (s["op"], s["rank"])
                seen[key] = seen.get(key, 0) + 1
                events.append({"k": "slices", "op": s["op"], "calls": s["calls"], "notown": s["notown"], "own": s["own"], "used": s["used"]})
                meta.append(dict(m0, what="%s invocation %d" % (s["op"], seen[key]), rank=s["rank"]))
            ser = os.path.join(work, "i%s_1_1" % iota, "F")
            mine = os.path.join(j["work"], "F")
            for name in ("grid_%06d.h5" % 0, "grid_%06d.h5" % (nsteps * dt), "phi_%06d.h5" % 0, "phi_%06d.h5" % (nsteps * dt)):
                same, dev = compare(read(mine, name), read(ser, name))
                events.append({"k": "field", "what": name, "ok": bool(o["ok"]), "same": same, "err": o["fault"][:300]})
                meta.append(dict(m0, what="field " + name, rel_dev=dev))
        # the quasi-neutrality pipeline on a density with non-zero flux-surface average, every process grid against the serial run
        qn_npts = [8, 8, 6]
        ref = None
        for g in [[1, 1]] + [x for x in grids if x != [1, 1] and x[0] <= qn_npts[0] and x[0] <= qn_npts[1] and x[1] <= qn_npts[2]]:
            n = int(np.prod(g))
            out = [[] for _ in range(n)]
            rs = MPI.run(n, qn_job, policy="random", seed=rng.randint(0, 999), args=(g, qn_npts, 5, out))
            full = {}
            if rs.ok:
                for o in out:
                    for chi, st, en, blk in o:
                        A = full.setdefault(chi, np.zeros([qn_npts[0], qn_npts[2], qn_npts[1]], dtype=complex))
                        A[st[0]:en[0], st[1]:en[1], st[2]:en[2]] = blk
            if g == [1, 1]:
                ref = full
            for chi in (0, 1):
                same, dev = False, -1.0
                if rs.ok and ref and chi in full and chi in ref:
                    sc = float(np.max(np.abs(ref[chi]))) or 1.0
                    dev = float(np.max(np.abs(full[chi] - ref[chi]))) / sc
                    same = dev <= 1e-12
                events.append({"k": "field", "what": "potential of the quasi-neutrality pipeline, chi=%d" % chi, "ok": bool(rs.ok), "same": same, "err": rs.describe()})
                meta.append({"iota": 0.8, "nprocs": g, "npts": qn_npts, "what": "QN pipeline on a density with non-zero average, chi=%d" % chi, "rel_dev": dev})
        # every public grid-level operator entry point (also those the driver does not call), every process grid against serial
        from pygyro.initialisation import setups as _su
        _orig = _su.compute_2d_process_grid
        ocfile = scenarios.write_constants(os.path.join(work, "c_ops.json"), npts=NPTS, iotaVal=0.8, eps=0.05, m=3, **GENERIC)
        oref = None
        try:
            for g in [[1, 1]] + [x for x in grids if x != [1, 1]]:
                n = int(np.prod(g))
                out = [[] for _ in range(n)]
                rs = MPI.run(n, ops_job, policy="random", seed=rng.randint(0, 999), args=(ocfile, g, 11, out))
                full = {}
                if rs.ok:
                    for o in out:
                        for stage, order, st, en, blk in o:
                            A = full.setdefault(stage, np.full(NPTS, np.nan))
                            V = np.transpose(A, order)        # view in the layout's order
                            V[tuple(slice(a, b) for a, b in zip(st, en))] = blk
                if g == [1, 1]:
                    oref = full
                for stage in (oref or {}):
                    same, dev = False, -1.0
                    if rs.ok and stage in full:
                        sc = float(np.nanmax(np.abs(oref[stage]))) or 1.0
                        d_ = np.abs(full[stage] - oref[stage])
                        dev = float(np.max(d_)) / sc if not np.isnan(d_).any() else float("inf")
                        same = dev <= 1e-12
                    events.append({"k": "field", "what": "f after " + stage, "ok": bool(rs.ok), "same": same, "err": rs.describe()[:300]})
                    meta.append({"iota": 0.8, "nprocs": g, "npts": NPTS, "what": "operator entry point: " + stage, "rel_dev": dev})
                if not oref:
                    events.append({"k": "field", "what": "operator entry points (serial reference)", "ok": False, "same": False, "err": rs.describe()[:300]})
                    meta.append({"iota": 0.8, "nprocs": g, "npts": NPTS, "what": "operator entry points: serial reference failed", "rel_dev": -1.0})
                    break
        finally:
            _su.compute_2d_process_grid = _orig
        # the three starting layouts on every process grid
        from pygyro.initialisation import setups
        orig = setups.compute_2d_process_grid
        # constants in general position: the defaults make several distinct constants equal (kTe = kTi, CTe = CTi = 1,
        # deltaRTe = deltaRTi, vMin = -vMax), which hides a constant mistaken for its twin
        cfile = scenarios.write_constants(os.path.join(work, "c_generic.json"), npts=NPTS, iotaVal=0.8, eps=0.05, m=3, **GENERIC)
        try:
            for g in grids:
                setups.compute_2d_process_grid = lambda npts, size, _g=tuple(g): _g
                folder = os.path.join(work, "setup_%d_%d" % tuple(g))
                os.makedirs(folder)
                for lay in STD:
                    rs = MPI.run(int(np.prod(g)), setup_job, policy="random", seed=rng.randint(0, 999), args=(cfile, lay, folder))
                    a = read(folder, "init_%s_%06d.h5" % (lay, 0))
                    b = read(os.path.join(work, "setup_1_1"), "init_%s_%06d.h5" % (lay, 0))
                    same, dev = compare(a, b)
                    # the same initial condition whatever the starting layout: compare with the v_parallel field re-ordered
                    c = read(os.path.join(work, "setup_1_1"), "init_v_parallel_%06d.h5" % 0)
                    if same and a is not None and c is not None:
                        canon_a = np.transpose(a[0], np.argsort(a[1]))
                        canon_c = np.transpose(c[0], np.argsort(c[1]))
                        same = bool(np.max(np.abs(canon_a - canon_c)) <= 1e-13 * np.max(np.abs(canon_c)))
                    events.append({"k": "field", "what": "initial distribution set up in " + lay, "ok": bool(rs.ok), "same": same, "err": rs.describe()})
                    meta.append({"iota": 0.8, "nprocs": g, "npts": NPTS, "what": "setup in layout " + lay, "rel_dev": dev})
        finally:
            setups.compute_2d_process_grid = orig
    finally:
        shutil.rmtree(work, ignore_errors=True)
    consts = "CONSTANT MaxSteps = 1000\n"
    rej, _ = ctx.validate_trace("C05Trace", events, what="driver runs on %d process grids x 2 iota (%d events)" % (len(grids), len(events)),
                                consts=consts, init="TInit", nxt="TNext")
    for j, (e, m) in enumerate(zip(events, meta), 1):
        if e["k"] in ("slices", "field"):
            ctx.count(None if int(np.prod(m["nprocs"])) == 1 else (m["iota"], tuple(m["nprocs"]), m["what"], m.get("rank")))
        else:
            ctx.evaluations += 1
        if j in rej:
            sig = {"kind": e["k"], "clause": rej[j][0]}
            if e["k"] == "slices":
                sig["op"] = e["op"]
            if e["k"] == "field":
                sig["what"] = "initial" if "initial" in m["what"] or "000000" in m["what"] else "after-step"
                sig["iota_zero"] = bool(m["iota"] == 0.0)
            ctx.violation(sig, "%s rejected by C05Trace clauses %s; %s" % (m, rej[j], {k: v for k, v in e.items() if k != "id"}),
                          {"event": e, "meta": m})
    ctx.sample({"meta": meta[1], "event": events[1]})
    ctx.sample(next({"meta": m, "event": e} for e, m in zip(events, meta) if e["k"] == "slices"))
    ctx.sample(next({"meta": m, "event": e} for e, m in zip(events, meta) if e["k"] == "field" and int(np.prod(m["nprocs"])) > 1))
    ctx.extra["max_rel_dev"] = max([m.get("rel_dev", 0.0) for m in meta if isinstance(m.get("rel_dev"), float)] or [0.0])
    ctx.extra["events_by_kind"] = {k: sum(1 for e in events if e["k"] == k) for k in ("stmt", "slices", "field")}
