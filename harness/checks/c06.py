"""C06 - all ranks issue matching collectives; no layout change can deadlock.

Spec: Collectives (per-rank programs, Arrive/Return incl. early return, every interleaving), Routes (the route search with
the set-iteration choice left nondeterministic; two independent runs per state), RoutesConf.
Programs are recorded from the real code on the simulated MPI layer in subprocesses with different PYTHONHASHSEED values;
the program of rank r is taken from the interpreter with seed (r mod K) ("every real rank is a separate interpreter").
"""
import concurrent.futures
import hashlib
import itertools
import json
import os
import random
import shutil
import subprocess
import sys
import tempfile

import numpy as np

from harness.core import Machinery, VERIF
from harness import scenarios
from harness import simlayout as sl

LEVEL = "model_checking"
STD = scenarios.STD


def build_jobs(work, quick, rng):
    rng = random.Random(12345)        # the same scenarios for every interpreter (only the work directory differs)
    cfile = scenarios.write_constants(os.path.join(work, "c.json"))
    jobs = []

    def add(scn, n, params, **kw):
        j = {"id": "%s#%d" % (scn, len(jobs)), "scn": scn, "n": n, "params": params}
        j.update(kw)
        jobs.append(j)
    grids = [[2, 2], [1, 2], [2, 1], [2, 3], [1, 3], [3, 1]] + ([] if quick else [[3, 2], [1, 4], [4, 1], [3, 3]])
    for g in grids:
        add("handler", int(np.prod(g)), {"shape": [4, 5, 7, 8] if g != [3, 3] else [6, 5, 7, 8], "nprocs": g, "layouts": STD})
    add("handler", 3, {"shape": [7, 5], "nprocs": [3], "layouts": {"a": [0, 1], "b": [1, 0]}})
    add("handler", 4, {"shape": [4, 5, 6], "nprocs": [2, 2], "layouts": {"A": [0, 1, 2], "B": [0, 2, 1], "C": [2, 1, 0]}})
    add("handler", 4, {"shape": [4, 4, 4, 4], "nprocs": [2, 2],
                       "layouts": {"a": [0, 1, 2, 3], "b": [0, 2, 1, 3], "c": [0, 3, 2, 1], "d": [3, 2, 0, 1], "e": [3, 1, 2, 0]}})
    # layout graphs with several equally short routes (cycles): the tie-break of the route search decides, and must decide
    # identically in every interpreter
    six = {"L%d%d%d" % tuple(o): list(o) for o in itertools.permutations(range(3))}
    add("handler", 4, {"shape": [4, 5, 6], "nprocs": [2, 2], "layouts": six, "usebuf": False})
    add("handler", 6, {"shape": [4, 5, 6], "nprocs": [2, 3], "layouts": dict(reversed(list(six.items()))), "usebuf": False})
    perms4 = [list(o) for o in itertools.permutations(range(4))]
    made = 0
    while made < (3 if quick else 12):
        k = rng.randint(5, 8)
        chosen = rng.sample(perms4, k)
        lay = {"P%d%d%d%d" % tuple(o): o for o in chosen}
        g = rng.choice([[2, 2], [2, 3], [3, 2]])
        from harness.checks.c02 import connected
        if connected(lay, g):
            add("handler", int(np.prod(g)), {"shape": [4, 4, 5, 6], "nprocs": g, "layouts": lay, "usebuf": False})
            made += 1
    walk = [["v_parallel_2d", False], ["v_parallel_1d", True], ["poloidal", False], ["mode_solve", True], ["poloidal", False],
            ["v_parallel_2d", False], ["mode_solve", False], ["v_parallel_1d", False]]
    for g in ([2, 2], [1, 2], [2, 1], [2, 3]) + (() if quick else ([3, 2], [1, 3], [3, 3])):
        add("swapper", int(np.prod(g)), {"shape": [6, 6, 7], "nprocs": g, "walk": walk})
    # over-decomposed grids: more processes than points along a direction in SOME layouts (empty blocks)
    add("handler", 4, {"shape": [3, 8, 5], "nprocs": [4], "layouts": {"a": [0, 1, 2], "b": [1, 0, 2], "c": [2, 1, 0]}})
    add("handler", 6, {"shape": [2, 5, 4], "nprocs": [3, 2], "layouts": {"A": [0, 1, 2], "B": [0, 2, 1], "C": [2, 1, 0]}})
    add("swapper", 6, {"shape": [6, 2, 4], "nprocs": [3, 2], "walk": walk})
    # data ranks that own nothing in any layout (not the plot-only rank: they are members of the sub-communicators)
    add("handler", 4, {"shape": [1, 4, 1], "nprocs": [2, 2], "layouts": {"A": [0, 1, 2], "B": [2, 1, 0]}})
    for g in ([2, 2], [1, 3], [2, 1]):
        add("minmax", int(np.prod(g)), {"shape": [4, 5, 6, 7], "nprocs": g, "root": 0})
    add("minmax", 4, {"shape": [4, 5, 6, 7], "nprocs": [2, 2], "root": 3})
    add("figblock", 4, {"shape": [4, 5, 6, 7], "nprocs": [2, 2], "root": 0})
    add("figblock", 3, {"shape": [4, 5, 6, 7], "nprocs": [1, 3], "root": 2})
    add("figblock", 4, {"shape": [4, 5, 6, 7], "nprocs": [2, 2], "root": 1, "cplx": True})       # complex grid (as the potential is)
    add("setupsave", 3, {"given": False}, cwd=os.path.join(work, "ss1"))
    add("setupsave", 3, {"given": True}, cwd=os.path.join(work, "ss2"))
    for lay, n, plot in (("v_parallel", 3, True), ("poloidal", 5, True), ("flux_surface", 4, False), ("v_parallel", 2, False), ("v_parallel", 1, True)):
        add("setup", n, {"cfile": cfile, "layout": lay, "plot": plot, "folder": os.path.join(work, "ck%d" % len(jobs))})
    # the plot-only rank is not rank 0
    add("setup", 4, {"cfile": cfile, "layout": "v_parallel", "plot": True, "draw": 3, "folder": None})
    add("setup", 3, {"cfile": cfile, "layout": "flux_surface", "plot": True, "draw": 1, "folder": None})
    # the restart set-up, without and with a plot-only rank
    add("restart", 3, {"cfile": cfile, "folder": os.path.join(work, "rs%d" % len(jobs)), "plot": False, "draw": 0})
    add("restart", 2, {"cfile": cfile, "folder": os.path.join(work, "rs%d" % len(jobs)), "plot": False, "draw": 1})
    add("restart", 4, {"cfile": cfile, "folder": os.path.join(work, "rs%d" % len(jobs)), "plot": True, "draw": 2})
    add("restart", 3, {"cfile": cfile, "folder": os.path.join(work, "rs%d" % len(jobs)), "plot": True, "draw": 0, "saved": False})
    add("restart", 4, {"cfile": cfile, "folder": os.path.join(work, "rs%d" % len(jobs)), "plot": True, "draw": 3, "saved": False})
    add("diag", 4, {"cfile": cfile})
    add("diag", 2, {"cfile": cfile, "savestep": 1})
    return jobs


def record(jobs, hashseed, policy, seed, eager):
    js = [dict(j, policy=policy, seed=seed, eager=eager) for j in jobs]
    env = dict(os.environ, PYTHONHASHSEED=str(hashseed), VERIF_REPO=os.environ.get("VERIF_REPO", "/repo"))
    p = subprocess.run([sys.executable, "-m", "harness.rec06"], input=json.dumps(js), capture_output=True, text=True,
                       env=env, cwd=VERIF, timeout=3600)
    if p.returncode != 0:
        raise Machinery("recorder failed (hash seed %s): %s" % (hashseed, p.stderr[-3000:]))
    return json.loads(p.stdout)


def driver_job(work, n, argv, tag):
    return {"id": "driver#" + tag, "scn": "driver", "n": n, "params": {}, "argv": argv, "cwd": os.path.join(work, tag)}


COLL_CFG = ("INIT Init\nNEXT Next\nCONSTANT MaxLead = 1\nINVARIANT PosConsistent\nINVARIANT InstanceUniform\nINVARIANT EveryoneComes\nCHECK_DEADLOCK TRUE\n")


def check_programs(ctx, sid, data, label, simulate=None):
    """TLC over Collectives for one program set; returns the TLCResult."""
    payload = json.dumps({"progs": data["progs"], "pos": data["pos"], "comms": data["comms"]})
    kw = {}
    if simulate:
        kw = {"simulate": simulate, "depth": 100000}
    return ctx.tlc("Collectives", COLL_CFG, what="%s [%s]" % (sid, label), files={"prog.json": payload},
                   env={"PROG_FILE": "prog.json"}, workers=8, timeout=1800, **kw)


def figblock_job(comm, shape, nprocs, ord0, reqs, root):
    """getBlockFromDict for a list of requests on ONE grid; the root returns (starts, sizes, data tokens) per request."""
    from pygyro.model.grid import Grid
    h, eta = sl.handler_job(comm, shape, nprocs, {"L": list(ord0)})
    g = Grid(eta, [None] * len(shape), h, "L", comm)
    g.getAllData()[:] = sl.local_block(sl.tokens(shape), h.getLayout("L"))
    out = []
    for req in reqs:
        d = {dim: (range(q[0], q[1])) for dim, q in enumerate(req) if q[0] >= 0}
        r = g.getBlockFromDict(d, comm, root)
        if comm.Get_rank() == root:
            _, starts, mpi_data, data = r
            out.append(([int(x) for x in starts], [int(x) for x in sl.decode(np.asarray(data, dtype=float))]))
    return out


def part_figblock(ctx, rng, quick):
    """FigBlock.tla: the wire-level model of the figure gather (the code's clipping with numpy slice semantics, piece sizes, Gatherv in
    rank order) is checked by TLC against the abstract statement (intersection with the rank's block; every requested entry once) on
    every configuration of a box; the configurations of the dump box are replayed on the real code.  What C06 states - compatible
    counts - is judged by the simulated MPI layer (a mismatch makes the call fail: violation); the gathered DATA are not part of any
    listed property: a difference there is reported as drift."""
    from mpi4py import MPI
    inv = "INVARIANT ClipIsIntersection\nINVARIANT GatheredIsRequest\n"
    if not quick:
        r = ctx.tlc("FigBlock", "INIT Init\nNEXT Next\nCONSTANTS Shapes <- Shapes2 Grids <- Grids5 Wide = TRUE\n" + inv + "CHECK_DEADLOCK FALSE\n",
                    what="figure gather: every request range on 2 shapes x 6 dimension orders x 5 process grids", workers=16, big=True, timeout=7200)
        if r.violated:
            raise Machinery("FigBlock.tla violates %s: %s" % (r.violated, (r.trace_text or "")[:800]))
    r = ctx.tlc("FigBlock", "INIT Init\nNEXT Next\nCONSTANTS Shapes <- %s Grids <- %s Wide = FALSE\n" % (("Shapes1", "Grids3") if quick else ("Shapes3", "Grids5"))
                + inv + "INVARIANT Dump\nCHECK_DEADLOCK FALSE\n", what="figure gather: dump box", workers=8)
    if r.violated:
        raise Machinery("FigBlock.tla violates %s: %s" % (r.violated, (r.trace_text or "")[:800]))
    groups = {}
    for row in r.rows:
        if row.get("req"):
            groups.setdefault((tuple(row["sh"]), tuple(row["ord"]), tuple(row["P"])), []).append(row)
    n = 0
    for (sh, od, P), rows in sorted(groups.items()):
        if quick:
            rows = rng.sample(rows, min(len(rows), 15))
        nprocs = list(P[:2])
        size = int(np.prod(nprocs))
        root = rng.randrange(size)
        reqs = [[list(q) for q in row["req"]] for row in rows]
        res = MPI.run(size, figblock_job, policy=rng.choice(["asc", "desc", "random", "rr"]), seed=rng.randint(0, 10 ** 6),
                      args=(list(sh), nprocs, [d - 1 for d in od], reqs, root))
        if not res.ok:
            ctx.violation({"kind": "figure-gather-fails", "scenario": "figblock-box"}, "getBlockFromDict on shape %s, layout %s, process grid %s, root %d: %s" % (
                list(sh), list(od), nprocs, root, res.describe()[:500]), {"sh": list(sh), "ord": list(od), "nprocs": nprocs, "root": root})
            continue
        got = res.values[root]
        for row, (starts, data) in zip(rows, got):
            n += 1
            ctx.count(("figblock-box", sh, od, P, json.dumps(row["req"])))
            want_starts = [int(x) for x in np.concatenate([[0], np.cumsum(row["sizes"])[:-1]])]
            if starts != want_starts or data != [int(x) for x in row["data"]]:
                ctx.drift_report("figure gather %s on shape %s layout %s grid %s: starts %s / data %s, FigBlock.tla %s / %s" % (
                    row["req"], list(sh), list(od), nprocs, starts, data[:12], want_starts, row["data"][:12]))
    ctx.extra["figure_gathers_replayed"] = n


def run(ctx):
    rng = random.Random(ctx.seed)
    quick = ctx.quick()
    ctx.rule = ("program sets = (scenario, hash-seed assignment, recording schedule); scenarios cover construction of layout managers, "
                "all transposes, getMin/getMax in every branch, figure block gathers, setupSave, grid set-up with/without plot-only rank, "
                "checkpoint write/read, diagnostics collect/reduce, one step of the real driver; TLC explores every interleaving of "
                "Arrive/Return (incl. early return) for each; distinct = distinct program-set contents; non-trivial = more than one rank")
    work = tempfile.mkdtemp(prefix="c06_")
    try:
        # ---- Routes: design-level uniqueness of the route map under every set-iteration order
        for n in ((2, 3, 4) if quick else (2, 3, 4, 5)):
            cfg = "INIT Init\nNEXT Next\nCONSTANT N = %d\nINVARIANT RouteMapUnique\nINVARIANT RouteValid\nINVARIANT FullIffConnected\nCHECK_DEADLOCK FALSE\n" % n
            r = ctx.tlc("Routes", cfg, what="all graphs x all dictionary orders x all tie-break choices, %d layouts" % n,
                        workers=16, big=(n >= 5), timeout=7200)
            if r.violated:
                ctx.violation({"kind": "route-search-design", "invariant": r.violated},
                              "Routes.tla (transcription of _makeConnectionMap) violates %s:\n%s" % (r.violated, (r.trace_text or "")[:3000]),
                              {"spec": "Routes", "N": n})
            ctx.log("Routes N=%d: %d states (%.1fs) %s" % (n, r.distinct, r.wall, r.violated or "ok"))
        part_figblock(ctx, rng, quick)
        # ---- record programs under several interpreter hash seeds
        K = 4 if quick else 12
        jobs = build_jobs(work, quick, rng)
        jobs_hs = {}
        for hs in range(K):
            os.makedirs(os.path.join(work, "hs%d" % hs))
            jobs_hs[hs] = build_jobs(os.path.join(work, "hs%d" % hs), quick, rng)
        cfile = os.path.join(work, "c.json")
        drv = [driver_job(work, 2, ["2", "100000", "-c", cfile, "-f", "D", "-s", "2"], "drv2"),
               driver_job(work, 4, ["4", "100000", "-c", cfile, "-f", "D", "-s", "3"], "drv4")]
        recs = {}
        with concurrent.futures.ThreadPoolExecutor(max_workers=min(K + 1, 14)) as ex:
            futs = {}
            for hs in range(K):
                pol = ["asc", "desc", "random", "rr"][hs % 4]
                futs[ex.submit(record, jobs_hs[hs], hs, pol, ctx.seed + hs, hs % 2 == 1)] = hs
            fd = ex.submit(record, drv, 0, "random", ctx.seed, False)
            for f in concurrent.futures.as_completed(futs):
                recs[futs[f]] = f.result()
            drec = fd.result()
        ctx.log("recorded %d scenarios under %d hash seeds (+%d driver runs)" % (len(jobs), K, len(drv)))
        seen = set()
        nsets = 0
        route_maps = {}
        for j in jobs + drv:
            sid = j["id"]
            per_seed = [recs[hs][sid] for hs in range(K)] if not sid.startswith("driver") else [drec[sid]]
            n = j["n"]
            # a rank that raised an ordinary exception leaves prefixes that say nothing about C06
            bad = [d for d in per_seed if not d["ok"] and d["describe"].startswith("rank ")]
            if bad:
                # a rank that raised before reaching a collective which another member of that communicator has ALREADY issued never
                # arrives there: the others wait for ever (a definite mismatch of the per-rank sequences, whatever else the exception
                # means).  Without such evidence in any recorded schedule the scenario says nothing about C06.
                import re as _re
                proof = None
                for d in bad:
                    mm = _re.match(r"rank (\d+) raised", d["describe"])
                    if not mm or not d.get("progs"):
                        continue
                    r = int(mm.group(1))
                    mine = {}
                    for cl in d["progs"][r]:
                        mine[cl["comm"]] = max(mine.get(cl["comm"], 0), cl["k"])
                    for q, pq in enumerate(d["progs"]):
                        for cl in pq:
                            if q != r and (r + 1) in d["comms"].get(cl["comm"], []) and cl["k"] > mine.get(cl["comm"], 0):
                                proof = (r, q, cl, d["describe"])
                                break
                        if proof:
                            break
                    if proof:
                        break
                mpi_arg = next((d["describe"] for d in bad if any(k in d["describe"] for k in (
                    "invalid root", "Gatherv: root must give counts", "do not multiply to the communicator size", "buffer is not contiguous"))), None)
                if mpi_arg and not proof:
                    # the MPI layer itself refused the call (a root that is not a member of the communicator, counts missing at the
                    # root, a process grid that does not match the communicator): the collective is malformed whatever the others do
                    ctx.violation({"kind": "collective-program", "scenario": j["scn"], "what": "malformed-collective-call"},
                                  "scenario %s: %s" % (sid, mpi_arg[:300]), {"scenario": {k: v for k, v in j.items()}})
                    continue
                if proof:
                    r, q, cl, desc = proof
                    ctx.violation({"kind": "collective-program", "scenario": j["scn"], "what": "rank-leaves-before-a-collective-others-issued"},
                                  "scenario %s: %s - before issuing call %d on %s (%s), which rank %d had already issued: that rank waits for ever" % (
                                      sid, desc[:200], cl["k"], cl["comm"], cl["op"], q), {"scenario": {k: v for k, v in j.items() if k != "params"} | {"params": j.get("params")}})
                else:
                    ctx.note("scenario %s not judged: %s" % (sid, bad[0]["describe"][:200]))
                    ctx.extra.setdefault("not_judged", []).append(sid)
                continue
            sets = []
            if len(per_seed) > 1:
                allcomms = {}                # a communicator one interpreter used and another did not is still the same communicator
                for d_ in per_seed:
                    for cn_, mem_ in d_["comms"].items():
                        allcomms.setdefault(cn_, mem_)
                mixed = {"progs": [per_seed[r % K]["progs"][r] for r in range(n)],
                         "pos": [per_seed[r % K]["pos"][r] for r in range(n)], "comms": allcomms}
                sets.append(("ranks from different interpreters (hash seed r mod %d)" % K, mixed))
                mixed2 = {"progs": [per_seed[(r * 5 + 3) % K]["progs"][r] for r in range(n)],
                          "pos": [per_seed[(r * 5 + 3) % K]["pos"][r] for r in range(n)], "comms": allcomms}
                sets.append(("ranks from different interpreters (hash seed (5r+3) mod %d)" % K, mixed2))
            for hs, d in enumerate(per_seed):
                sets.append(("hash seed %d" % hs, d))
            for label, d in sets:
                h = hashlib.sha1(json.dumps([d["progs"], d["comms"]], sort_keys=True).encode()).hexdigest()
                ctx.count((sid, h) if n > 1 else None)
                if h in seen:
                    continue
                seen.add(h)
                nsets += 1
                big = sum(len(p) for p in d["progs"]) > 1500
                r = check_programs(ctx, sid, d, label, simulate=("num=200" if big else None))
                if r.violated:
                    ctx.violation({"kind": "collective-program", "scenario": j["scn"], "what": r.violated},
                                  "Collectives.tla on the programs recorded for %s (%s): %s\n%s" % (
                                      sid, label, r.violated, (r.trace_text or "")[:2500]),
                                  {"job": j, "label": label, "programs_head": [p[:6] for p in d["progs"]]})
                # second, independent witness: the simulated layer's own run-time detection
                if "ok" in d and not d["ok"] and not r.violated:
                    ctx.violation({"kind": "collective-runtime", "scenario": j["scn"], "what": d["describe"].split(":")[0]},
                                  "simulated MPI reported %s for %s (%s) although the recorded programs pass TLC" % (d["describe"][:500], sid, label),
                                  {"job": j, "label": label})
            if j["scn"] in ("handler", "swapper"):
                maps = {json.dumps(d["values"], sort_keys=True) for d in per_seed}
                route_maps[sid] = (j, per_seed[0]["values"][0])
                if len(maps) != 1:
                    ctx.violation({"kind": "route-map-differs-between-interpreters", "scenario": j["scn"]},
                                  "route maps differ between ranks / hash seeds for %s" % sid, {"job": j, "maps": sorted(maps)[:3]})
        ctx.extra["program_sets_checked"] = nsets
        ctx.traces = nsets
        # ---- drift: the constructor's route map equals the unique map of the transcription
        route_drift(ctx, route_maps)
        ctx.sample({"scenario": jobs[0], "program_rank0_head": recs[0][jobs[0]["id"]]["progs"][0][:5]})
        ctx.sample({"scenario": drv[0]["id"], "program_lengths": [len(p) for p in drec[drv[0]["id"]]["progs"]]})
    finally:
        shutil.rmtree(work, ignore_errors=True)


def route_drift(ctx, route_maps):
    graphs = {}
    for sid, (j, rm) in route_maps.items():
        if j["scn"] != "handler" or not rm:
            continue
        names = list(j["params"]["layouts"])
        order = sorted(names)
        idx = {nm: order.index(nm) + 1 for nm in names}
        nprocs = j["params"]["nprocs"]
        lays = j["params"]["layouts"]
        edges = [[min(idx[a], idx[b]), max(idx[a], idx[b])] for a, b in itertools.combinations(names, 2)
                 if sum(1 for i, n in enumerate(nprocs) if n > 1 and lays[a][i] != lays[b][i]) < 2]
        graphs.setdefault(len(names), []).append({"gid": sid, "n": len(names), "ord": [idx[nm] for nm in names], "edges": edges,
                                                 "_idx": idx, "_rm": rm})
    for n, gl in graphs.items():
        payload = json.dumps([{k: v for k, v in g.items() if not k.startswith("_")} for g in gl])
        cfg = ("INIT InitC\nNEXT NextC\nCONSTANT N = %d\nINVARIANT RouteMapUnique\nINVARIANT RouteValid\nINVARIANT DumpC\nCHECK_DEADLOCK FALSE\n" % n)
        r = ctx.tlc("RoutesConf", cfg, what="route maps of %d recorded handler graphs with %d layouts" % (len(gl), n),
                    files={"routes.json": payload}, env={"ROUTE_FILE": "routes.json"}, workers=4)
        if r.violated:
            ctx.violation({"kind": "route-search-design", "invariant": r.violated}, "RoutesConf violates %s" % r.violated, {})
        rows = {x["gid"]: x for x in r.rows}
        for g in gl:
            row = rows.get(g["gid"])
            if row is None:
                continue
            inv = {v: k for k, v in g["_idx"].items()}
            spec = {inv[s + 1]: {inv[t + 1]: [inv[x] for x in row["routes"][s][t]] for t in range(n) if t != s} for s in range(n)}
            if spec != g["_rm"]:
                ctx.drift_report("route map built by the constructor for %s differs from Routes.tla's unique map" % g["gid"])
