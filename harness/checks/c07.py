"""C07 - spline evaluation equals the mathematical B-spline on every entry point.

Spec: Rat, Poly, BSplines (Cox-de Boor basis as exact piecewise polynomials on the knot vector the path really uses),
BSplinesMC (every space of the box: identities checked by TLC, tables printed).  Each printed table is one implementation
test: all entry points of the real code are evaluated at breakpoints, end points, points one ulp inside, cell quarter points
and seeded points, under several affine maps of the breakpoints, and compared with the exact polynomial values.
"""
import copy
import random
from fractions import Fraction as Fr

import numpy as np

from harness.core import Machinery
from harness import splineoracle as so

LEVEL = "model_checking"
TOL = 1e-10
MAPS = [(0.0, 1.0), (0.5, 0.25), (-3.0, 2.0), (1.0, 0.1)]


def test_points(sp, a, h, rng, extra=3):
    br = sp.real_breaks(a, h)
    pts = set()
    for i, b in enumerate(br):
        pts.add(float(b))
        if i > 0:
            pts.add(float(np.nextafter(b, -np.inf)))
        if i < len(br) - 1:
            pts.add(float(np.nextafter(b, np.inf)))
    for c in range(sp.ncells):
        for q in (0.25, 0.5, 0.75):
            pts.add(float(br[c] + q * (br[c + 1] - br[c])))
        for _ in range(extra):
            pts.add(float(br[c] + rng.random() * (br[c + 1] - br[c])))
    return sorted(p for p in pts if br[0] <= p <= br[-1])


def variants(sp):
    """(space, periodic flag) variants realised by the code for one table row"""
    if sp.kind == "cu":
        out = [(sp, False)]
        if sp.ncells >= 3:          # make_knots admits periodic spaces with ncells >= degree
            s2 = copy.copy(sp)
            s2.cu_periodic = True
            out.append((s2, True))
        return out
    return [(sp, sp.kind == "periodic")]


def coeff_vectors(sp, periodic, rng, nrand):
    n = sp.nb
    vecs = []
    units = list(range(n if not periodic else sp.ncells))
    for i in units:
        c = [0.0] * n
        c[i] = 1.0
        vecs.append(("unit%d" % i, sp.wrap(c) if periodic else c))
    for k in range(nrand):
        c = [float(rng.randint(-9, 9)) for _ in range(n)]
        vecs.append(("int%d" % k, sp.wrap(c) if periodic else c))
    return vecs


def check_space(ctx, sp, periodic, rng, quick, stats, maps=None):
    from pygyro.splines import splines as spl
    from pygyro.splines import spline_eval_funcs as nu
    from pygyro.splines import cubic_uniform_spline_eval_funcs as cu
    maps = maps or (MAPS[:2] if quick else MAPS)
    for (a, h) in maps:
        exact_map = (h in (1.0, 0.25, 2.0))
        basis = sp.make(a, h)
        if basis.nbasis != (sp.ncells if periodic else sp.nb) or len(spl.Spline1D(basis).coeffs) != sp.nb:
            ctx.violation({"kind": "space-shape", "path": sp.kind}, "BSplines reports nbasis=%d, coefficient length %d for %s" % (
                basis.nbasis, len(spl.Spline1D(basis).coeffs), sp.key()), {"space": sp.key()})
            continue
        pts = test_points(sp, a, h, rng, extra=1 if quick else 3)
        xi = [so.to_int_coord(x, a, h) for x in pts]
        # clip the (at most 1 ulp) excursions of mapped end points
        xi = [min(max(x, Fr(sp.br[0])), Fr(sp.br[-1])) for x in xi]
        xs = np.array(pts)
        # basis[i]: the i-th basis function as a spline (the periodic image coefficients included)
        for i in range(basis.nbasis):
            e = [0.0] * sp.nb
            e[i] = 1.0
            if periodic:
                e = sp.wrap(e)
            try:
                bi = basis[i]
                gotc = [float(v) for v in bi.coeffs]
                vals = [float(v) for v in bi.eval(xs.copy())]
                want = [float(sp.spline(e, x, 0, "right")) for x in xi]
                bad = gotc != e or max(abs(a_ - b_) for a_, b_ in zip(vals, want)) > TOL * 10
            except Exception as ex:
                bad, gotc, vals, want = True, ["%s: %s" % (type(ex).__name__, ex)], [], []
            if bad:
                ctx.violation({"kind": "basis-function-getitem", "path": "cu" if sp.kind == "cu" else "general", "periodic": bool(periodic)},
                              "basis[%d] of %s (periodic %s): coefficients %s, expected %s; values differ by %s" % (
                                  i, sp.key(), periodic, gotc, e, max([abs(a_ - b_) for a_, b_ in zip(vals, want)] or [float("nan")])),
                              {"space": sp.key(), "i": i, "periodic": periodic, "map": [a, h]})
        spline = spl.Spline1D(basis)
        kept = []                    # arrays returned earlier by the same object: a later call must not write into them
        for name, c in coeff_vectors(sp, periodic, rng, 1 if quick else 3):
            spline.coeffs[:] = c
            cmax = max(1.0, max(abs(v) for v in c))
            for der in (0, 1):
                want_r = [sp.spline(c, x, der, "right") for x in xi]
                if der == 1 and sp.p == 1:
                    # the derivative of a degree-1 spline jumps at breakpoints: either one-sided value is accepted there; under a
                    # non-dyadic affine map a mapped breakpoint and its float image differ by rounding, so points within 1e-9 of a
                    # breakpoint count as on it
                    snap = [Fr(round(x)) if abs(x - round(x)) < Fr(1, 10 ** 9) else x for x in xi]
                    want_r = [sp.spline(c, x, der, "right") for x in snap]
                    want_l = [sp.spline(c, x, der, "left") for x in snap]
                else:
                    want_l = want_r
                scale = (1.0 / h) ** der
                tol = TOL * cmax * max(1.0, scale) * (10.0 if not exact_map else 1.0) * (1.0 + sp.p * der / min(1.0, h * 1.0))
                got = {}
                try:
                    got["Spline1D.eval(scalar)"] = [spline.eval(float(x), der) for x in xs]
                    ret = spline.eval(xs.copy(), der)
                    kept.append((ret, np.array(ret, copy=True), "Spline1D.eval(array) der=%d coeffs %s" % (der, name)))
                    got["Spline1D.eval(array)"] = list(ret)
                    y = np.full(len(xs), np.nan)
                    spline.eval_vector(xs.copy(), y, der)
                    got["Spline1D.eval_vector"] = list(y)
                    buf = xs.copy()                         # in place: the points are replaced by the values
                    spline.eval_vector(buf, buf, der)
                    got["Spline1D.eval_vector(in place)"] = list(buf)
                    if sp.kind == "cu":
                        got["cu_eval_spline_1d_scalar"] = [cu.cu_eval_spline_1d_scalar(float(x), basis.knots, 3, spline.coeffs, der) for x in xs]
                    else:
                        got["nu_eval_spline_1d_scalar"] = [nu.nu_eval_spline_1d_scalar(float(x), basis.knots, sp.p, spline.coeffs, der) for x in xs]
                except Exception as ex:
                    ctx.violation({"kind": "eval-raises", "path": sp.kind, "error": type(ex).__name__},
                                  "evaluation raised %s: %s on %s map %s der %d" % (type(ex).__name__, ex, sp.key(), (a, h), der),
                                  {"space": sp.key(), "map": [a, h], "coeffs": c, "der": der})
                    continue
                for ep, vals in got.items():
                    stats["evals"] += len(vals)
                    for x, xq, v, wr, wl in zip(pts, xi, vals, want_r, want_l):
                        e1 = abs(float(v) - float(wr) * scale)
                        e2 = abs(float(v) - float(wl) * scale)
                        if not (min(e1, e2) <= tol):
                            atbreak = xq in [Fr(b) for b in sp.br]
                            ctx.violation({"kind": "value", "path": "cu" if sp.kind == "cu" else "general", "entry": ep.split("(")[0], "der": der,
                                           "at_breakpoint": bool(atbreak), "at_end": bool(xq in (Fr(sp.br[0]), Fr(sp.br[-1])))},
                                          "%s der=%d at x=%r (integer coordinate %s) returns %r, exact B-spline value %r; space %s, map %s, coeffs %s" % (
                                              ep, der, x, xq, float(v), float(wr) * scale, sp.key(), (a, h), name),
                                          {"space": sp.key(), "periodic": periodic, "map": [a, h], "coeffs": c, "x": x, "der": der, "entry": ep})
                            break
            ctx.count((sp.key(), periodic, a, h, name))
        for ret, snap, what in kept:
            if not np.array_equal(np.asarray(ret), snap, equal_nan=True):
                ctx.violation({"kind": "returned-array-overwritten", "path": "cu" if sp.kind == "cu" else "general", "entry": "Spline1D.eval"},
                              "the array returned by %s was changed by a later evaluation on the same spline (space %s)" % (what, sp.key()),
                              {"space": sp.key(), "periodic": periodic, "map": [a, h]})
                break
        # BSplines[i]: basis functions as splines (periodic: wrapped), non-negative, partition of unity
        try:
            tot = np.zeros(len(xs))
            dtot = np.zeros(len(xs))
            for i in range(basis.nbasis):
                bi = basis[i]
                v = bi.eval(xs.copy())
                d = bi.eval(xs.copy(), 1)
                c = [0.0] * sp.nb
                c[i] = 1.0
                if periodic:
                    c = sp.wrap(c)
                want = np.array([float(sp.spline(c, x, 0)) for x in xi])
                if np.max(np.abs(v - want)) > TOL * 10:
                    ctx.violation({"kind": "basis-function", "path": sp.kind}, "BSplines[%d] differs from the exact basis function by %g on %s" % (
                        i, float(np.max(np.abs(v - want))), sp.key()), {"space": sp.key(), "i": i, "map": [a, h]})
                if np.min(v) < -TOL:
                    ctx.violation({"kind": "basis-negative", "path": sp.kind}, "BSplines[%d] negative (%g) on %s" % (i, float(np.min(v)), sp.key()), {"space": sp.key(), "i": i})
                tot += v
                dtot += d
            if np.max(np.abs(tot - 1.0)) > TOL * 10 or np.max(np.abs(dtot)) > TOL * 100 / min(1.0, h) ** 1:
                ctx.violation({"kind": "partition-of-unity", "path": sp.kind}, "sum of basis %g, sum of derivatives %g on %s map %s" % (
                    float(np.max(np.abs(tot - 1.0))), float(np.max(np.abs(dtot))), sp.key(), (a, h)), {"space": sp.key(), "map": [a, h]})
        except Exception as ex:
            ctx.violation({"kind": "eval-raises", "path": sp.kind, "error": type(ex).__name__}, "BSplines[i] raised %s: %s on %s" % (type(ex).__name__, ex, sp.key()), {"space": sp.key()})
        # periodic: equal values and slopes at both ends
        if periodic:
            c = sp.wrap([float(rng.randint(-9, 9)) for _ in range(sp.nb)])
            spline.coeffs[:] = c
            aa, bb = basis.domain
            for der in ((0, 1) if sp.p >= 2 else (0,)):     # a periodic spline of degree p is C^(p-1): slopes match for p >= 2
                va, vb = spline.eval(float(aa), der), spline.eval(float(bb), der)
                if abs(va - vb) > TOL * 100 * max(1.0, 1.0 / h):
                    ctx.violation({"kind": "periodic-ends", "path": sp.kind, "der": der}, "periodic spline: der %d at a = %r, at b = %r on %s" % (der, va, vb, sp.key()),
                                  {"space": sp.key(), "coeffs": c, "map": [a, h]})


def check_2d(ctx, s1, p1, s2, p2, rng, stats):
    from pygyro.splines import splines as spl
    from pygyro.splines import spline_eval_funcs as nu
    b1, b2 = s1.make(0.5, 0.25), s2.make(-1.0, 2.0)
    if b1.cubic_uniform != b2.cubic_uniform:
        return
    S = spl.Spline2D(b1, b2)
    c = np.array([[float(rng.randint(-5, 5)) for _ in range(s2.nb)] for _ in range(s1.nb)])
    if p1:
        for j in range(s1.p):
            c[s1.ncells + j, :] = c[j, :]
    if p2:
        for j in range(s2.p):
            c[:, s2.ncells + j] = c[:, j]
    S.coeffs[:] = c
    x1 = test_points(s1, 0.5, 0.25, rng, 1)[::2]
    x2 = test_points(s2, -1.0, 2.0, rng, 1)[::2]
    q1 = [min(max(so.to_int_coord(x, 0.5, 0.25), Fr(s1.br[0])), Fr(s1.br[-1])) for x in x1]
    q2 = [min(max(so.to_int_coord(x, -1.0, 2.0), Fr(s2.br[0])), Fr(s2.br[-1])) for x in x2]
    kept2 = []
    for d1 in (0, 1):
        for d2 in (0, 1):
            if (d1 and s1.p == 1) or (d2 and s2.p == 1):
                continue        # one-sided derivatives of degree-1 splines at breakpoints are covered in 1-D
            B1 = np.array([[float(s1.basis(i, x, d1)) for i in range(s1.nb)] for x in q1]) * (1 / 0.25) ** d1
            B2 = np.array([[float(s2.basis(j, x, d2)) for j in range(s2.nb)] for x in q2]) * (1 / 2.0) ** d2
            want = B1 @ c @ B2.T
            try:
                g1 = S.eval(np.array(x1), np.array(x2), d1, d2)
                kept2.append((g1, np.array(g1, copy=True), (d1, d2)))
                g2 = np.array([[S.eval(float(a), float(b), d1, d2) for b in x2] for a in x1])
                g3 = np.full((len(x1), len(x2)), np.nan)
                S.eval_vector(np.array(x1), np.array(x2), g3, d1, d2)
            except Exception as ex:
                ctx.violation({"kind": "eval-raises", "path": "2d", "error": type(ex).__name__}, "Spline2D evaluation raised %s: %s" % (type(ex).__name__, ex),
                              {"spaces": [s1.key(), s2.key()]})
                return
            if not np.array_equal(S.coeffs, c):
                ctx.violation({"kind": "coefficients-changed-by-evaluation", "path": "cu" if b1.cubic_uniform else "general"},
                              "evaluating the 2-D spline changed its coefficients; spaces %s x %s" % (s1.key(), s2.key()), {"spaces": [s1.key(), s2.key()]})
                return
            stats["evals"] += 3 * want.size
            for ep, g in (("Spline2D.eval(grid)", g1), ("Spline2D.eval(scalar)", g2), ("Spline2D.eval_vector", g3)):
                err = float(np.max(np.abs(g - want)))
                if not err <= 1e-9 * max(1.0, float(np.max(np.abs(c)))) * 40:
                    ctx.violation({"kind": "value-2d", "entry": ep.split("(")[0], "der": [d1, d2], "path": "cu" if b1.cubic_uniform else "general"},
                                  "%s (der %d,%d) differs from the exact tensor-product value by %g; spaces %s x %s" % (ep, d1, d2, err, s1.key(), s2.key()),
                                  {"spaces": [s1.key(), s2.key()], "coeffs": c.tolist(), "der": [d1, d2]})
    for ret, snap, dd in kept2:
        if not np.array_equal(np.asarray(ret), snap, equal_nan=True):
            ctx.violation({"kind": "returned-array-overwritten", "path": "cu" if b1.cubic_uniform else "general", "entry": "Spline2D.eval"},
                          "the array returned by Spline2D.eval(grid, der %s) was changed by a later evaluation on the same spline; spaces %s x %s" % (
                              dd, s1.key(), s2.key()), {"spaces": [s1.key(), s2.key()]})
            break
    # the point-wise 2-D kernels (x[i], y[i]) -> z[i], which no class method reaches: called directly, output array with stale contents
    from pygyro.splines import cubic_uniform_spline_eval_funcs as cuk
    n_ = min(len(x1), len(x2))
    pa = np.array([x1[(3 * k) % len(x1)] for k in range(n_)])
    pb = np.array([x2[(5 * k + 1) % len(x2)] for k in range(n_)])
    qa = [min(max(so.to_int_coord(x, 0.5, 0.25), Fr(s1.br[0])), Fr(s1.br[-1])) for x in pa]
    qb = [min(max(so.to_int_coord(x, -1.0, 2.0), Fr(s2.br[0])), Fr(s2.br[-1])) for x in pb]
    kern = cuk.cu_eval_spline_2d_vector if b1.cubic_uniform else nu.nu_eval_spline_2d_vector
    for d1 in (0, 1):
        for d2 in (0, 1):
            if (d1 and s1.p == 1) or (d2 and s2.p == 1):
                continue
            A1 = np.array([[float(s1.basis(i, x, d1)) for i in range(s1.nb)] for x in qa]) * (1 / 0.25) ** d1
            A2 = np.array([[float(s2.basis(j, x, d2)) for j in range(s2.nb)] for x in qb]) * (1 / 2.0) ** d2
            want = np.einsum("ki,ij,kj->k", A1, c, A2)
            z = np.full(n_, -7.5)
            try:
                kern(pa.copy(), pb.copy(), np.array(b1.knots, dtype=float), b1.degree, np.array(b2.knots, dtype=float), b2.degree, c.copy(), z, d1, d2)
                err = float(np.max(np.abs(z - want)))
            except Exception as ex:
                err = float("inf")
                z = "%s: %s" % (type(ex).__name__, ex)
            stats["evals"] += n_
            if not err <= 1e-9 * max(1.0, float(np.max(np.abs(c)))) * 40:
                ctx.violation({"kind": "value-2d", "entry": kern.__name__, "der": [d1, d2], "path": "cu" if b1.cubic_uniform else "general"},
                              "%s (der %d,%d) differs from the exact tensor-product value by %s (%s); spaces %s x %s" % (kern.__name__, d1, d2, err, str(z)[:120], s1.key(), s2.key()),
                              {"spaces": [s1.key(), s2.key()], "der": [d1, d2]})
    # tensor-grid entry points with degenerate / unsorted second arguments (a single x2 value, x2 inside one cell, shuffled x2):
    # every grid entry must be the value at its own (x1, x2), whatever was evaluated before it
    xa = np.array(x1)
    for xb in (np.array([x2[len(x2) // 2]]), np.array([x2[1], x2[1] + 1e-3 * (x2[2] - x2[1])]), np.array(rng.sample(list(x2), len(x2)))):
        qb = [min(max(so.to_int_coord(x, -1.0, 2.0), Fr(s2.br[0])), Fr(s2.br[-1])) for x in xb]
        for (d1, d2) in ((0, 0), (0, 1), (1, 0), (1, 1)):
            if (d1 and s1.p == 1) or (d2 and s2.p == 1):
                continue
            B1 = np.array([[float(s1.basis(i, x, d1)) for i in range(s1.nb)] for x in q1]) * (1 / 0.25) ** d1
            B2 = np.array([[float(s2.basis(j, x, d2)) for j in range(s2.nb)] for x in qb]) * (1 / 2.0) ** d2
            want = B1 @ c @ B2.T
            g1 = S.eval(xa.copy(), xb.copy(), d1, d2)
            g3 = np.full((len(xa), len(xb)), np.nan)
            S.eval_vector(xa.copy(), xb.copy(), g3, d1, d2)
            stats["evals"] += 2 * want.size
            for ep, g in (("Spline2D.eval(grid)", g1), ("Spline2D.eval_vector", g3)):
                err = float(np.max(np.abs(g - want)))
                if not err <= 1e-9 * max(1.0, float(np.max(np.abs(c)))) * 40:
                    ctx.violation({"kind": "value-2d", "entry": ep.split("(")[0], "der": [d1, d2], "path": "cu" if b1.cubic_uniform else "general", "x2": "degenerate-or-unsorted"},
                                  "%s (der %d,%d) on a grid with %d x2 point(s) %s differs from the exact tensor-product value by %g; spaces %s x %s" % (
                                      ep, d1, d2, len(xb), xb.tolist(), err, s1.key(), s2.key()), {"spaces": [s1.key(), s2.key()], "x2": xb.tolist(), "der": [d1, d2]})
    ctx.count(("2d", s1.key(), p1, s2.key(), p2))


def same_function_cu_general(ctx, spaces, rng):
    """The uniform-cubic fast path and the general path give the same function: a spline in the fast-path representation,
    sampled at the general (clamped) space's interpolation points and interpolated there, is reproduced everywhere."""
    from pygyro.splines import splines as spl
    from pygyro.splines.spline_interpolators import SplineInterpolator1D
    for sp in [s for s in spaces if s.kind == "cu" and s.ncells >= 2][:6]:
        brk = sp.real_breaks(0.5, 0.25)
        fast = spl.BSplines(spl.make_knots(brk, 3, False), 3, False, True)
        gen = spl.BSplines(spl.make_knots(brk, 3, False), 3, False, False)
        f = spl.Spline1D(fast)
        f.coeffs[:] = [float(rng.randint(-9, 9)) for _ in range(sp.nb)]
        g = spl.Spline1D(gen)
        SplineInterpolator1D(gen).compute_interpolant(f.eval(gen.greville.copy()), g)
        xs = np.linspace(brk[0], brk[-1], 41)
        for der in (0, 1):
            err = float(np.max(np.abs(f.eval(xs.copy(), der) - g.eval(xs.copy(), der))))
            if not err <= 1e-8 * 4 ** der:
                ctx.violation({"kind": "fast-vs-general", "der": der}, "fast path and general path represent different functions (max dev %g, der %d) on breaks %s" % (err, der, list(brk)),
                              {"breaks": list(brk), "coeffs": list(f.coeffs)})
        ctx.count(("fast-vs-general", sp.key()))
        # periodic: identical bases, same coefficients give the same function
        if sp.ncells >= 4:
            fp = spl.BSplines(spl.make_knots(brk, 3, True), 3, True, True)
            gp = spl.BSplines(spl.make_knots(brk, 3, True), 3, True, False)
            a, b = spl.Spline1D(fp), spl.Spline1D(gp)
            c = sp.wrap([float(rng.randint(-9, 9)) for _ in range(sp.nb)])
            a.coeffs[:] = c
            b.coeffs[:] = c
            for der in (0, 1):
                err = float(np.max(np.abs(a.eval(xs.copy(), der) - b.eval(xs.copy(), der))))
                if not err <= 1e-9 * 4 ** der:
                    ctx.violation({"kind": "fast-vs-general-periodic", "der": der}, "periodic fast path and general path differ by %g for equal coefficients" % err,
                                  {"breaks": list(brk), "coeffs": c})


def run(ctx):
    rng = random.Random(ctx.seed)
    quick = ctx.quick()
    ctx.rule = ("spaces = every (degree 1-5, clamped / periodic / uniform-cubic fast path, integer breakpoints in 0..7 with <=%d cells) "
                "printed by BSplinesMC; per space: affine maps of the breakpoints x coefficient vectors (all unit vectors + seeded integer "
                "vectors) x der in {0,1} x all 1-D entry points at every breakpoint, both ends, points one ulp inside, cell quarter points "
                "and seeded points; 2-D tensor spaces sampled; distinct = (space, periodic, map, coefficient vector); every case is "
                "non-trivial" % (4 if quick else 6))
    spaces = so.run_box(ctx, 5, 4 if quick else 6, 7)
    ctx.exhaustive = True
    # degrees up to 10 in 1-D on few cells (uniform breakpoints keep the exact arithmetic within 32 bits)
    hi = []
    for deg, cells in ((8, 2),) if quick else ((10, 3), (10, 2), (9, 2), (8, 2)):
        try:
            hi = so.run_box(ctx, deg, cells, 3, kinds=("clamped",), what="degrees to %d, <=%d cells" % (deg, cells))
            hi = [s for s in hi if s.p > 5]
            break
        except Machinery as ex:
            ctx.note("high-degree box (degree <= %d, <= %d cells) not available in 32-bit exact arithmetic: %s" % (deg, cells, str(ex)[:150]))
    stats = {"evals": 0}
    todo = list(spaces)
    if quick:
        rng.shuffle(todo)
        keep, seen = [], {}
        for s in todo:
            k = (s.p, s.kind, s.uniform)
            if seen.get(k, 0) < 5:
                seen[k] = seen.get(k, 0) + 1
                keep.append(s)
        todo = keep
    for sp in todo + hi:
        for (s, periodic) in variants(sp):
            check_space(ctx, s, periodic, rng, quick, stats)
    # the uniform-cubic fast path computes the cell of x in closed form from (x - xmin) / dx: domains whose width is not a
    # floating-point multiple of the cell width ([-1,1] or [0,1] in 9-11 cells), at both ends and one ulp inside in particular
    try:
        many = so.run_box(ctx, 3, 11, 11, kinds=("cu",), uniform_only=True, mincells=9, what="uniform cubic spaces with 9-11 cells")
    except Machinery as ex:
        many = []
        ctx.note("uniform cubic spaces with 9-11 cells not available: %s" % str(ex)[:150])
    for sp in many:
        for (s, periodic) in variants(sp):
            check_space(ctx, s, periodic, rng, True, stats, maps=[(-1.0, 2.0 / sp.ncells), (0.0, 1.0 / sp.ncells)])
    pool = [v for s in todo if s.p <= 5 and s.ncells >= 2 for v in variants(s)]
    cu_pool = [v for v in pool if v[0].kind == "cu"]
    ge_pool = [v for v in pool if v[0].kind != "cu"]
    # stratified: the fast path is only taken when BOTH directions are uniform cubic, so draw such pairs explicitly
    for pl, n in ((ge_pool, 20 if quick else 150), (cu_pool, 12 if quick else 100)):
        for _ in range(n if pl else 0):
            (s1, p1), (s2, p2) = rng.choice(pl), rng.choice(pl)
            check_2d(ctx, s1, p1, s2, p2, rng, stats)
    same_function_cu_general(ctx, spaces, rng)
    ctx.extra["spaces_in_table"] = len(spaces) + len(hi)
    ctx.extra["spaces_replayed"] = len(todo) + len(hi)
    ctx.extra["point_evaluations_compared"] = stats["evals"]
    ctx.traces = len(todo) + len(hi)
    ctx.sample({"space": spaces[0].key(), "first_basis_function_cell_polynomials": [[str(x) for x in poly] for poly in spaces[0].tab[0]]})
    ctx.sample({"space": todo[-1].key(), "integrals": [str(x) for x in todo[-1].ints]})
