"""C08 - interpolants reproduce their data and all polynomials of the spline degree.

Spec: BSplines tables (BSplinesMC).  For every space the real SplineInterpolator1D/2D computes interpolants of (i) data
generated exactly from known coefficient vectors (the collocation values sum_j c_j N_j(x_i) from the table), (ii) arbitrary
and badly scaled data, (iii) monomials up to the degree; the returned coefficients are judged with the table: the exact
piecewise polynomial they define must take the data at the interpolation points / equal the monomial everywhere.
"""
import copy
import random
from fractions import Fraction as Fr

import numpy as np

from harness import splineoracle as so
from harness.checks.c07 import variants

LEVEL = "model_checking"


def exact_at(sp, coeffs, xi, der=0):
    return [sp.spline(coeffs, x, der) for x in xi]


def colloc(sp, xi, periodic):
    """exact collocation matrix of the (wrapped) basis at integer-coordinate points xi, as floats, and its condition number"""
    n = sp.ncells if periodic else sp.nb
    M = np.zeros((len(xi), n))
    for r, x in enumerate(xi):
        for j in range(sp.nb):
            v = float(sp.basis(j, x))
            if v:
                M[r, j % n if periodic else j] += v
    return M


def check_space(ctx, sp, periodic, rng, quick, stats):
    from pygyro.splines import splines as spl
    from pygyro.splines.spline_interpolators import SplineInterpolator1D
    for (a, h) in ((0.5, 0.25), (-2.0, 2.0)) if not quick else ((0.5, 0.25),):
        try:
            basis = sp.make(a, h)
            interp = SplineInterpolator1D(basis)
            interc = SplineInterpolator1D(basis, dtype=complex) if not periodic else None
        except Exception as ex:
            ctx.violation({"kind": "interpolator-construction", "path": sp.kind, "error": type(ex).__name__},
                          "SplineInterpolator1D raised %s: %s for %s" % (type(ex).__name__, ex, sp.key()), {"space": sp.key(), "periodic": periodic})
            return
        xg = np.array(basis.greville, dtype=float)
        xi = [min(max(so.to_int_coord(x, a, h), Fr(sp.br[0])), Fr(sp.br[-1])) for x in xg]
        n = len(xg)
        M = colloc(sp, xi, periodic)
        cond = float(np.linalg.cond(M)) if M.shape[0] == M.shape[1] else float("inf")
        if not np.isfinite(cond) or cond > 1e8:
            ctx.note("space %s: collocation condition %g, skipped" % (sp.key(), cond))
            continue
        tolc = 1e-11 * cond * 50
        datas = []
        # (i) from coefficients
        for k in range(2 if quick else 5):
            c = [float(rng.randint(-9, 9)) for _ in range(sp.nb)]
            if periodic:
                c = sp.wrap(c)
            u = np.array([float(v) for v in exact_at(sp, c, xi)])
            datas.append(("from-coefficients", u, c))
        # (ii) arbitrary and badly scaled data (powers of two: exact)
        datas.append(("random", np.array([rng.uniform(-1, 1) for _ in range(n)]), None))
        datas.append(("badly-scaled", np.array([rng.uniform(-1, 1) * 2.0 ** rng.randint(-20, 20) for _ in range(n)]), None))
        for kind, u, c in datas:
            s = spl.Spline1D(basis)
            held = np.ascontiguousarray(u, dtype=float).copy()        # the array the caller keeps: contiguous, of the solver's dtype
            try:
                interp.compute_interpolant(held, s)
            except Exception as ex:
                ctx.violation({"kind": "interpolant-raises", "path": sp.kind, "error": type(ex).__name__}, "compute_interpolant raised %s: %s on %s" % (type(ex).__name__, ex, sp.key()),
                              {"space": sp.key(), "data": u.tolist()})
                continue
            if not np.array_equal(held, u):
                ctx.violation({"kind": "caller-data-changed", "path": sp.kind, "periodic": periodic},
                              "compute_interpolant changed the data array it was given (by up to %g): the interpolant no longer takes the values the caller holds; space %s" % (
                                  float(np.max(np.abs(held - u))), sp.key()), {"space": sp.key(), "periodic": periodic, "data": u.tolist()})
            got = [float(x) for x in s.coeffs]
            umax = max(1.0, float(np.max(np.abs(u))))
            back = np.array([float(v) for v in exact_at(sp, [Fr(x) for x in got], xi)])
            stats["cases"] += 1
            if not np.max(np.abs(back - u)) <= tolc * umax:
                ctx.violation({"kind": "data-not-reproduced", "path": sp.kind, "periodic": periodic, "data": kind},
                              "interpolant of %s data misses its data by %g (tolerance %g) at the interpolation points; space %s map %s" % (
                                  kind, float(np.max(np.abs(back - u))), tolc * umax, sp.key(), (a, h)),
                              {"space": sp.key(), "periodic": periodic, "map": [a, h], "data": u.tolist(), "coeffs": got})
            # ... and through the public evaluation forms of the interpolant at its interpolation points (point by point, array, in place)
            try:
                pts = [float(s.eval(float(x))) for x in xg]
                arr = [float(v) for v in s.eval(xg.copy())]
                ret = s.eval(xg.copy())
                s.eval(xg[::-1].copy())                     # a later evaluation of the same spline must leave the earlier result alone
                inp = np.full(len(xg), np.nan)
                s.eval_vector(xg.copy(), inp)
                ali = xg.copy()
                s.eval_vector(ali, ali)                     # points replaced by the values
                for form, vals in (("point by point", pts), ("array", arr), ("into a given array", list(inp)), ("in place", list(ali)),
                                   ("array, read after a later evaluation", [float(v) for v in ret])):
                    dv = float(np.max(np.abs(np.array(vals) - u)))
                    if not dv <= tolc * umax:
                        ctx.violation({"kind": "data-not-reproduced", "path": sp.kind, "periodic": periodic, "data": kind, "form": form},
                                      "interpolant of %s data evaluated %s at its interpolation points misses the data by %g; space %s map %s" % (
                                          kind, form, dv, sp.key(), (a, h)), {"space": sp.key(), "periodic": periodic, "map": [a, h], "data": u.tolist()})
            except Exception as ex:
                ctx.violation({"kind": "interpolant-raises", "path": sp.kind, "error": type(ex).__name__, "form": "evaluation"},
                              "evaluating the interpolant raised %s: %s on %s" % (type(ex).__name__, ex, sp.key()), {"space": sp.key()})
            if c is not None and not np.max(np.abs(np.array(got) - np.array(c))) <= tolc * 10:
                ctx.violation({"kind": "coefficients", "path": sp.kind, "periodic": periodic},
                              "interpolant of collocation data of coefficients %s returns %s; space %s" % (c, got, sp.key()),
                              {"space": sp.key(), "periodic": periodic, "coeffs": c, "returned": got})
            if periodic and got[sp.ncells:sp.ncells + sp.p] != got[:sp.p]:
                ctx.violation({"kind": "periodic-wrap", "path": sp.kind}, "wrapped coefficients inconsistent: %s vs %s on %s" % (
                    got[sp.ncells:], got[:sp.p], sp.key()), {"space": sp.key(), "coeffs": got})
            ctx.count((sp.key(), periodic, a, h, kind, stats["cases"]))
        # complex data on clamped spaces
        if interc is not None:
            u = np.array([complex(rng.randint(-9, 9), rng.randint(-9, 9)) for _ in range(n)])
            s = spl.Spline1D(basis, dtype=complex)
            try:
                interc.compute_interpolant(u.copy(), s)
                cr = [Fr(float(x.real)) for x in s.coeffs]
                ci = [Fr(float(x.imag)) for x in s.coeffs]
                back = np.array([float(v) for v in exact_at(sp, cr, xi)]) + 1j * np.array([float(v) for v in exact_at(sp, ci, xi)])
                if not np.max(np.abs(back - u)) <= tolc * 20:
                    ctx.violation({"kind": "data-not-reproduced", "path": sp.kind, "periodic": False, "data": "complex"},
                                  "complex interpolant misses its data by %g on %s" % (float(np.max(np.abs(back - u))), sp.key()), {"space": sp.key()})
            except Exception as ex:
                ctx.violation({"kind": "interpolant-raises", "path": sp.kind, "error": type(ex).__name__, "complex": True},
                              "complex compute_interpolant raised %s: %s on %s" % (type(ex).__name__, ex, sp.key()), {"space": sp.key()})
            ctx.count((sp.key(), "complex", a, h))
        # real data through every pairing of interpolator dtype and spline dtype (clamped): the result does not depend on it
        if interc is not None:
            import warnings
            u = np.array([float(rng.randint(-9, 9)) for _ in range(n)])
            for it, sdt, tag in ((interc, float, "complex-interpolator/real-spline"), (interp, complex, "real-interpolator/complex-spline"),
                                 (interc, complex, "complex-interpolator/complex-spline/real-data")):
                s = spl.Spline1D(basis, dtype=sdt)
                try:
                    with warnings.catch_warnings():
                        warnings.simplefilter("ignore")
                        it.compute_interpolant(u.copy(), s)
                    cr = [Fr(float(np.real(x))) for x in s.coeffs]
                    back = np.array([float(v) for v in exact_at(sp, cr, xi)])
                    im = float(np.max(np.abs(np.imag(s.coeffs)))) if sdt is complex else 0.0
                    if not (np.max(np.abs(back - u)) <= tolc * 20 and im <= tolc * 20):
                        ctx.violation({"kind": "data-not-reproduced", "path": sp.kind, "periodic": False, "data": tag},
                                      "%s: interpolant misses its real data by %g (imaginary part %g) on %s" % (
                                          tag, float(np.max(np.abs(back - u))), im, sp.key()), {"space": sp.key(), "data": u.tolist()})
                except Exception as ex:
                    ctx.violation({"kind": "interpolant-raises", "path": sp.kind, "error": type(ex).__name__, "complex": tag},
                                  "%s: compute_interpolant raised %s: %s on %s" % (tag, type(ex).__name__, ex, sp.key()), {"space": sp.key()})
                ctx.count((sp.key(), tag, a, h))
        # (iii) polynomial reproduction on clamped spaces (clamped knots or the fast path's clamped handling)
        if not periodic:
            xt = [Fr(sp.br[0]) + Fr(sp.br[-1] - sp.br[0]) * Fr(k, 12) for k in range(13)]
            for k in range(sp.p + 1):
                u = np.array([float(x) ** k for x in xi])
                s = spl.Spline1D(basis)
                interp.compute_interpolant(u.copy(), s)
                vals = np.array([float(v) for v in exact_at(sp, [Fr(float(x)) for x in s.coeffs], xt)])
                want = np.array([float(x) ** k for x in xt])
                wmax = max(1.0, float(np.max(np.abs(want))))
                if not np.max(np.abs(vals - want)) <= tolc * wmax * 10:
                    ctx.violation({"kind": "polynomial-not-reproduced", "path": sp.kind, "k": k},
                                  "interpolant of x^%d on the degree-%d space %s deviates by %g" % (k, sp.p, sp.key(), float(np.max(np.abs(vals - want)))),
                                  {"space": sp.key(), "k": k, "map": [a, h]})
                ctx.count((sp.key(), "poly", k, a, h))


def check_2d(ctx, s1, p1, s2, p2, rng, stats):
    from pygyro.splines import splines as spl
    from pygyro.splines.spline_interpolators import SplineInterpolator2D
    b1, b2 = s1.make(0.5, 0.25), s2.make(-1.0, 2.0)
    if b1.cubic_uniform != b2.cubic_uniform:
        return
    try:
        it = SplineInterpolator2D(b1, b2)
    except Exception as ex:
        ctx.violation({"kind": "interpolator-construction", "path": "2d", "error": type(ex).__name__}, "SplineInterpolator2D raised %s: %s" % (type(ex).__name__, ex),
                      {"spaces": [s1.key(), s2.key()]})
        return
    x1 = [min(max(so.to_int_coord(x, 0.5, 0.25), Fr(s1.br[0])), Fr(s1.br[-1])) for x in b1.greville]
    x2 = [min(max(so.to_int_coord(x, -1.0, 2.0), Fr(s2.br[0])), Fr(s2.br[-1])) for x in b2.greville]
    M1, M2 = colloc(s1, x1, p1), colloc(s2, x2, p2)
    cond = float(np.linalg.cond(M1) * np.linalg.cond(M2))
    if cond > 1e8:
        return
    u = np.array([[rng.uniform(-1, 1) for _ in x2] for _ in x1])
    S = spl.Spline2D(b1, b2)
    held = u.copy()
    it.compute_interpolant(held, S)
    if not np.array_equal(held, u):
        ctx.violation({"kind": "caller-data-changed", "path": "2d", "periodic": [p1, p2]},
                      "2-D compute_interpolant changed the data matrix it was given (by up to %g); spaces %s x %s" % (
                          float(np.max(np.abs(held - u))), s1.key(), s2.key()), {"spaces": [s1.key(), s2.key()]})
    # badly scaled matrices: the interpolant of 2^-k u is 2^-k times the interpolant of u (exactly, powers of two), however small
    for k in (30, 45):
        S2 = spl.Spline2D(b1, b2)
        it.compute_interpolant(u * 2.0 ** -k, S2)
        if not np.max(np.abs(S2.coeffs * 2.0 ** k - S.coeffs)) <= 1e-12 * max(1.0, float(np.max(np.abs(S.coeffs)))):
            ctx.violation({"kind": "data-not-reproduced-2d", "periodic": [p1, p2], "form": "badly scaled"},
                          "2-D interpolant of 2^-%d u is not 2^-%d times the interpolant of u (coefficients differ by %g after rescaling); spaces %s x %s" % (
                              k, k, float(np.max(np.abs(S2.coeffs * 2.0 ** k - S.coeffs))), s1.key(), s2.key()), {"spaces": [s1.key(), s2.key()]})
            break
    B1 = np.array([[float(s1.basis(i, x)) for i in range(s1.nb)] for x in x1])
    B2 = np.array([[float(s2.basis(j, x)) for j in range(s2.nb)] for x in x2])
    back = B1 @ S.coeffs @ B2.T
    stats["cases"] += 1
    if not np.max(np.abs(back - u)) <= 1e-11 * cond * 100:
        ctx.violation({"kind": "data-not-reproduced-2d", "periodic": [p1, p2]}, "2-D interpolant misses its data by %g; spaces %s x %s" % (
            float(np.max(np.abs(back - u))), s1.key(), s2.key()), {"spaces": [s1.key(), s2.key()], "data": u.tolist()})
    # ... and through the public evaluation forms of the interpolant at its interpolation points: point by point and on the tensor grid
    g1 = np.array(b1.greville, dtype=float)
    g2 = np.array(b2.greville, dtype=float)
    try:
        pt = np.array([[S.eval(float(a_), float(b_)) for b_ in g2] for a_ in g1])
        gr = np.array(S.eval(g1.copy(), g2.copy()))
        ev = np.full((len(g1), len(g2)), 7.25)          # a caller-provided output array with stale contents
        S.eval_vector(g1.copy(), g2.copy(), ev)
        for form, got in (("point by point", pt), ("tensor grid", gr), ("tensor grid into a caller-provided array (eval_vector)", ev)):
            if not np.max(np.abs(got - u)) <= 1e-11 * cond * 100:
                ctx.violation({"kind": "data-not-reproduced-2d", "periodic": [p1, p2], "form": form},
                              "2-D interpolant evaluated %s at its interpolation points misses its data by %g; spaces %s x %s" % (
                                  form, float(np.max(np.abs(got - u))), s1.key(), s2.key()), {"spaces": [s1.key(), s2.key()], "data": u.tolist()})
    except Exception as ex:
        ctx.violation({"kind": "interpolant-raises", "path": "2d", "error": type(ex).__name__}, "evaluating the 2-D interpolant raised %s: %s; spaces %s x %s" % (
            type(ex).__name__, ex, s1.key(), s2.key()), {"spaces": [s1.key(), s2.key()]})
    c = S.coeffs
    if p1 and not np.array_equal(c[s1.ncells:s1.ncells + s1.p, :], c[:s1.p, :]):
        ctx.violation({"kind": "periodic-wrap-2d", "axis": 1}, "2-D wrapped coefficients inconsistent along axis 1", {"spaces": [s1.key(), s2.key()]})
    if p2 and not np.array_equal(c[:, s2.ncells:s2.ncells + s2.p], c[:, :s2.p]):
        ctx.violation({"kind": "periodic-wrap-2d", "axis": 2}, "2-D wrapped coefficients inconsistent along axis 2", {"spaces": [s1.key(), s2.key()]})
    ctx.count(("2d", s1.key(), p1, s2.key(), p2))


def run(ctx):
    rng = random.Random(ctx.seed)
    quick = ctx.quick()
    ctx.rule = ("spaces = tables printed by BSplinesMC (degree 1-5, clamped/periodic/fast path, breakpoints in 0..7); per space: data "
                "generated from coefficient vectors, random and badly scaled data, complex data (clamped), monomials up to the degree; "
                "2-D tensor spaces of all four boundary combinations sampled; distinct = (space, map, data set); all non-trivial")
    spaces = so.run_box(ctx, 5, 4 if quick else 6, 7)
    ctx.exhaustive = True
    stats = {"cases": 0}
    todo = list(spaces)
    if quick:
        rng.shuffle(todo)
        keep, seen = [], {}
        for s in todo:
            k = (s.p, s.kind, s.uniform)
            if seen.get(k, 0) < 6:
                seen[k] = seen.get(k, 0) + 1
                keep.append(s)
        todo = keep
    for sp in todo:
        for (s, periodic) in variants(sp):
            check_space(ctx, s, periodic, rng, quick, stats)
    pool = [v for s in todo if s.ncells >= 2 for v in variants(s)]
    combos = 0
    for want in ((False, False), (True, False), (False, True), (True, True)):
        cand1 = [v for v in pool if v[1] == want[0]]
        cand2 = [v for v in pool if v[1] == want[1]]
        for _ in range(8 if quick else 60):
            (s1, p1), (s2, p2) = rng.choice(cand1), rng.choice(cand2)
            check_2d(ctx, s1, p1, s2, p2, rng, stats)
        # the uniform-cubic fast path is taken only when BOTH directions are uniform cubic: such pairs are drawn explicitly
        cu1 = [v for v in cand1 if v[0].kind == "cu"]
        cu2 = [v for v in cand2 if v[0].kind == "cu"]
        for _ in range((4 if quick else 30) if cu1 and cu2 else 0):
            (s1, p1), (s2, p2) = rng.choice(cu1), rng.choice(cu2)
            check_2d(ctx, s1, p1, s2, p2, rng, stats)
            combos += 1
    # two directions of equal size, degree and boundary kind but DIFFERENT breakpoints (nothing may be shared between the directions)
    groups = {}
    for v in pool:
        groups.setdefault((v[0].nb, v[0].p, v[1], v[0].kind == "cu"), []).append(v)
    twins = [g for g in groups.values() if len({tuple(v[0].br) for v in g}) >= 2]
    for _ in range((12 if quick else 80) if twins else 0):
        g = rng.choice(twins)
        (s1, p1) = rng.choice(g)
        (s2, p2) = rng.choice([v for v in g if tuple(v[0].br) != tuple(s1.br)])
        check_2d(ctx, s1, p1, s2, p2, rng, stats)
    ctx.extra["spaces_in_table"] = len(spaces)
    ctx.extra["spaces_replayed"] = len(todo)
    ctx.extra["interpolation_problems"] = stats["cases"]
    ctx.traces = len(todo)
    ctx.sample({"space": todo[0].key()})
    ctx.sample({"space": todo[-1].key(), "integrals": [str(x) for x in todo[-1].ints]})
