"""C09 - spline quadrature weights integrate the interpolant exactly.

Spec: BSplines tables (BSplinesMC) incl. the exact integral of every basis function (Poly antiderivatives) and the identity
IntegralsSumToLength.  For every space the weights q returned by the real get_quadrature_coefficients() must satisfy the
exact linear identity  sum_i q_i N_j(x_i) = integral of N_j  for every (wrapped) basis function j at the code's own
interpolation points x_i - equivalently q.u = integral of the interpolant for all data u -, sum to the domain length, be all
equal on uniform periodic spaces, and BSplines.integrals must equal the table's integrals.
"""
import random
from fractions import Fraction as Fr

import numpy as np

from harness import splineoracle as so
from harness.checks.c07 import variants
from harness.checks.c08 import colloc

LEVEL = "model_checking"


def run(ctx):
    from pygyro.splines import splines as spl
    from pygyro.splines.spline_interpolators import SplineInterpolator1D
    rng = random.Random(ctx.seed)
    quick = ctx.quick()
    ctx.rule = ("spaces = every table printed by BSplinesMC (degree 1-5, clamped / periodic / uniform-cubic fast path with 1..%d cells, "
                "uniform and non-uniform integer breakpoints in 0..7) x 4 affine maps (cell widths 1, 1/4, 2^-30, 1024); distinct = (space, periodic, map); all non-trivial" % (5 if quick else 6))
    spaces = so.run_box(ctx, 5, 5 if quick else 6, 7)
    ctx.exhaustive = True
    n = 0
    for sp0 in spaces:
        for (sp, periodic) in variants(sp0):
            for (a, h) in ((0.0, 1.0), (0.5, 0.25), (0.0, 2.0 ** -30), (3.0, 1024.0)):      # incl. a tiny and a large domain: tolerances scale with h
                sig0 = {"path": sp.kind, "periodic": periodic, "uniform": sp.uniform, "cells": sp.ncells if sp.ncells < 3 else "3+"}
                try:
                    basis = sp.make(a, h)
                    it = SplineInterpolator1D(basis)
                    q = np.array(it.get_quadrature_coefficients(), dtype=float)
                    stored = np.array(basis.integrals, dtype=float)
                except Exception as ex:
                    ctx.violation(dict(sig0, kind="raises", error=type(ex).__name__), "quadrature raised %s: %s on %s" % (type(ex).__name__, ex, sp.key()),
                                  {"space": sp.key(), "periodic": periodic})
                    continue
                n += 1
                ctx.count((sp.key(), periodic, a, h))
                xg = np.array(basis.greville, dtype=float)
                # the interpolation points exactly as the code has them (splines.py rounds them to 15 decimals: on a tiny domain they move
                # by a visible fraction of a cell, even slightly outside the domain; the polynomial pieces extend there)
                xi = [so.to_int_coord(x, a, h) for x in xg]
                # the interpolation points of a space lie in its closed domain (periodic spaces wrap them into it)
                outside = [float(x) for x in xi if x < Fr(sp.br[0]) - Fr(1, 10 ** 5) or x > Fr(sp.br[-1]) + Fr(1, 10 ** 5)]
                if outside:
                    ctx.violation(dict(sig0, kind="interpolation-point-outside-domain"),
                                  "interpolation points %s (in cell units) of the space %s lie outside its domain [%d, %d]" % (outside, sp.key(), sp.br[0], sp.br[-1]),
                                  {"space": sp.key(), "periodic": periodic, "map": [a, h]})
                M = colloc(sp, xi, periodic)
                cond = float(np.linalg.cond(M))
                if cond > 1e8:
                    continue
                tol = 1e-11 * cond * 50 * h
                # exact integrals of the wrapped basis functions
                nb = sp.ncells if periodic else sp.nb
                want = np.zeros(nb)
                for j in range(sp.nb):
                    want[j % nb if periodic else j] += float(sp.ints[j]) * h
                # periodic spaces: a basis function and its image are one periodic function; how its integral is split between
                # the two stored entries is representation (the fast path stores it whole in the first entry), so the wrapped sums decide
                exact_i = np.array([float(x) * h for x in sp.ints])
                if periodic and len(stored) == sp.nb:
                    st = np.zeros(nb)
                    for j in range(sp.nb):
                        st[j % nb] += stored[j]
                    bad = not np.max(np.abs(st - want)) <= 1e-12 * h * 10
                else:
                    bad = len(stored) != sp.nb or not np.max(np.abs(stored - exact_i)) <= 1e-12 * h * 10
                if bad:
                    dev = (stored - exact_i) if len(stored) == sp.nb else None
                    ctx.violation(dict(sig0, kind="stored-integrals"),
                                  "BSplines.integrals = %s, exact integrals of the basis functions over the domain = %s; space %s map %s" % (
                                      stored.tolist(), [float(x) * h for x in sp.ints], sp.key(), (a, h)),
                                  {"space": sp.key(), "periodic": periodic, "map": [a, h], "deviation": None if dev is None else dev.tolist()})
                lhs = M.T @ q
                if not np.max(np.abs(lhs - want)) <= tol:
                    ctx.violation(dict(sig0, kind="weights-not-exact"),
                                  "quadrature weights %s: sum_i q_i N_j(x_i) = %s but the integrals of the basis functions are %s (space %s, map %s)" % (
                                      q.tolist(), lhs.tolist(), want.tolist(), sp.key(), (a, h)),
                                  {"space": sp.key(), "periodic": periodic, "map": [a, h], "weights": q.tolist()})
                length = (sp.br[-1] - sp.br[0]) * h
                if not abs(float(np.sum(q)) - length) <= tol:
                    ctx.violation(dict(sig0, kind="weights-sum"), "weights sum to %r, domain length %r (space %s)" % (float(np.sum(q)), length, sp.key()),
                                  {"space": sp.key(), "periodic": periodic, "map": [a, h], "weights": q.tolist()})
                dxi = [float(xi[k + 1] - xi[k]) for k in range(len(xi) - 1)] + ([float(xi[0] + (sp.br[-1] - sp.br[0]) - xi[-1])] if periodic else [])
                # the clause is judged on every uniform periodic space; the only excuse is the library's 15-decimal rounding of the
                # interpolation points, which is visible on a tiny domain only (spacings differing by a few 1e-15 absolute)
                spread = max(abs(d - dxi[0]) for d in dxi) if len(dxi) >= 2 else 0.0
                rounded_only = 1e-10 < spread <= 4e-15 / h      # (xi are in cell units)
                if periodic and sp.uniform and not rounded_only and not np.max(np.abs(q - q[0])) <= tol:
                    ctx.violation(dict(sig0, kind="weights-not-equal"), "uniform periodic space: weights %s are not all equal" % q.tolist(),
                                  {"space": sp.key(), "weights": q.tolist()})
                # the defining statement on random data: q.u = integral of the interpolant of u
                u = np.array([rng.uniform(-1, 1) for _ in xg])
                s = spl.Spline1D(basis)
                held = u.copy()               # the data array the caller holds (and applies the weights to)
                it.compute_interpolant(held, s)
                u = held
                integ = sum(Fr(float(c)) * sp.ints[j] for j, c in enumerate(s.coeffs)) * Fr(h) if not periodic else \
                    sum(Fr(float(s.coeffs[j % nb])) * sp.ints[j] for j in range(sp.nb)) * Fr(h)
                if not abs(float(q @ u) - float(integ)) <= tol * 10:
                    ctx.violation(dict(sig0, kind="integral-of-interpolant"), "q.u = %r but the integral of the interpolant is %r (space %s)" % (
                        float(q @ u), float(integ), sp.key()), {"space": sp.key(), "periodic": periodic, "data": u.tolist()})
    ctx.extra["spaces_in_table"] = len(spaces)
    ctx.extra["quadrature_rules_checked"] = n
    ctx.traces = n
    ctx.sample({"space": spaces[0].key(), "exact_integrals": [str(x) for x in spaces[0].ints]})
    ctx.sample({"space": spaces[-1].key(), "exact_integrals": [str(x) for x in spaces[-1].ints]})
