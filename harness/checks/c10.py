"""C10 - flux-surface advection is a field-aligned shift along z.

Spec: Stencils (degree-5 Lagrange weights as exact rationals, identities: sum to one, exact to degree 5, unit vector on a
node), BSplines tables (periodic theta splines), checked / printed by TLC.  Every (alpha row) x (integer cell shift) x
(twist) x (theta space) is one implementation test of FluxSurfaceAdvection.step against
    f'(theta_i, z_m) = sum_k L_k(alpha) * S_{(m+s_k) mod nz}(theta_i + s_k*tau),   s_k = floor(d)+k, k=-2..3,
with d = -v*b_z(r)*dt/dz, tau = dz*iota/R0 and S_j the theta-spline of line j.
"""
import math
import random
from fractions import Fraction as Fr

import numpy as np

from harness.core import Machinery
from harness import fieldalign as fa

LEVEL = "model_checking"


def stencil_rows(ctx, den=8, maxnz=14):
    r = ctx.tlc("StencilsMC", "INIT Init\nNEXT Next\nCONSTANTS Den = %d MaxNz = %d\nINVARIANT ILagrange\nINVARIANT IFD\nINVARIANT Dump\nCHECK_DEADLOCK FALSE\n" % (den, maxnz),
                what="Lagrange / finite-difference weights and index algebra", workers=4)
    if r.violated:
        raise Machinery("Stencils.tla violates %s:\n%s" % (r.violated, r.trace_text))
    lag = {Fr(*x["alpha"]): [Fr(*w) for w in x["w"]] for x in r.rows if x["kind"] == "lagrange"}
    fd = {x["n"]: ([int(k) for k in x["nodes"]], [Fr(*w) for w in x["w"]]) for x in r.rows if x["kind"] == "fd"}
    return lag, fd


def lagrange_weights(alpha):
    """Closed form of Stencils.LagrangeW for an arbitrary rational alpha (nodes -2..3); cross-checked against every row TLC
    printed (eighths) at the start of each run, so that it is the same function as the specification's."""
    nodes = range(-2, 4)
    out = []
    for k in nodes:
        w = Fr(1)
        for j in nodes:
            if j != k:
                w *= (alpha - j) / Fr(k - j)
        out.append(w)
    return out


def run(ctx):
    from pygyro.advection.advection import FluxSurfaceAdvection
    from pygyro.model.layout import Layout
    rng = random.Random(ctx.seed)
    quick = ctx.quick()
    ctx.rule = ("cases = (theta space: periodic degree 1-3 general path and uniform-cubic fast path, 7-9 cells) x (nz in 7..9) x "
                "(rotational transform 0 or r*iota/R0 in {3/4, 4/3, 5/12} so that b_z is rational) x (v, dt of either sign giving d = k/8 "
                "for k/8 in -5.5..5.5 incl. whole cells) x all (r, v) table rows; lines from integer coefficient vectors; distinct = "
                "(space, nz, iota, r index, v index, dt); all non-trivial")
    lag, _ = stencil_rows(ctx)
    for a_, w_ in lag.items():
        if lagrange_weights(a_) != w_:
            raise Machinery("harness Lagrange weights differ from the TLC table at alpha=%s" % a_)
    spaces = fa.theta_spaces(ctx)
    ctx.exhaustive = True
    rng.shuffle(spaces)
    spaces = spaces[:4 if quick else len(spaces)]
    ncase = 0
    worst = 0.0
    for sp in spaces:
        for nz in ((7, 9) if quick else (7, 8, 9, 12)):
            for iota in (0.0, 1.0, -1.0, "r-dependent", "r-dependent-signed"):
                L = fa.Lines(sp, nz, rng)
                R0 = 1.0
                rs = np.array([0.75, 4.0 / 3.0, 5.0 / 12.0]) if iota else np.array([0.5, 2.0, 3.0])
                rdep = isinstance(iota, str)
                if rdep:
                    # the operator takes iota as a function of r (its tables are per radius): twist and b_z differ per surface;
                    # the signed profile is negative on some surfaces and positive on others
                    iof = (lambda r: 0.4 + 0.5 * np.asarray(r, dtype=float)) if iota == "r-dependent" else (lambda r: 0.9 * np.asarray(r, dtype=float) - 0.8)
                    iov = iof(rs)
                else:
                    iov = np.full(len(rs), float(iota))
                bz = 1.0 / np.sqrt(1.0 + (rs * iov / R0) ** 2)
                # velocities such that v*bz*dt is (nearly) a multiple of 1/8 for the first radius, generic for the others
                ks = rng.sample(range(-44, 45), 5) + [0, 8, -16, 24]
                dt = rng.choice([1.0, -1.0, 0.5, 2.0])
                # ... and feet a few 1e-6 of a cell away from a grid line (not on it: all six weights are non-zero, one is nearly 1)
                ks = ks + [8 + 2.5e-5, -16 - 4e-5, 3e-5]
                vs = np.array(sorted(set(k / 8.0 / bz[0] / dt for k in ks)))
                eta = [rs, L.theta, np.arange(nz, dtype=float) * 1.0, vs]
                c = fa.consts(0.0 if rdep else iota, R0)
                if rdep:
                    c.iota = iof
                lay = Layout("flux_surface", [1], [0, 3, 1, 2], eta, [0])
                try:
                    op = FluxSurfaceAdvection(eta, [L.basis, None], lay, dt, c)
                except Exception as ex:
                    ctx.violation({"kind": "constructor-raises", "error": type(ex).__name__}, "FluxSurfaceAdvection raised %s: %s" % (type(ex).__name__, ex),
                                  {"space": sp.key(), "nz": nz, "iota": iota})
                    continue
                # step() must be a function of (f, vIdx, rIdx) only, whatever the operator object did before: the calls are made
                # v-outer / r-inner for the r-dependent transform (consecutive calls on different surfaces with the same integer
                # stencil), in seeded random order otherwise (gridStep's own order is r-outer / v-inner: C05 and the driver runs)
                order = [(ri, vi) for vi in range(len(vs)) for ri in range(len(rs))]
                if not rdep:
                    rng.shuffle(order)
                for (ri, vi) in order:
                    tau = 1.0 * float(iov[ri]) / R0
                    if True:
                        d = -vs[vi] * bz[ri] * dt / 1.0
                        d0 = Fr(round(d * 8), 8)
                        if abs(d - float(d0)) > 1e-9:
                            # generic displacement: exact weights of the float displacement itself (away from whole cells,
                            # where the choice of the stencil would be within rounding)
                            d0 = Fr(float(d))
                            if abs(d - round(d)) < 1e-6:
                                continue
                        s0 = math.floor(d0)
                        alpha = d0 - s0
                        w = lag[alpha] if alpha in lag else lagrange_weights(alpha)
                        f = L.f.copy()
                        try:
                            op.step(f, vi, ri)
                        except Exception as ex:
                            ctx.violation({"kind": "step-raises", "error": type(ex).__name__}, "step raised %s: %s" % (type(ex).__name__, ex),
                                          {"space": sp.key(), "nz": nz, "iota": iota, "d": float(d0)})
                            continue
                        want = np.zeros_like(f)
                        for m in range(nz):
                            for i, th in enumerate(L.theta):
                                acc = Fr(0)
                                for kk, k in enumerate(range(-2, 4)):
                                    if w[kk] != 0:
                                        s = s0 + k
                                        acc += w[kk] * L.eval(m + s, th + s * tau)
                                want[i, m] = float(acc)
                        err = float(np.max(np.abs(f - want)))
                        worst = max(worst, err)
                        ncase += 1
                        ctx.count((sp.key(), nz, iota, ri, vi, dt))
                        if not err <= 1e-9 * 10:
                            ctx.violation({"kind": "value", "path": sp.kind, "iota_zero": iota == 0.0, "iota_r_dependent": rdep, "iota_negative": bool(np.min(iov) < 0), "whole_cells": alpha == 0, "multi_cell": abs(s0) > 1,
                                           "first_radius": ri == 0},
                                          "FluxSurfaceAdvection.step(f, vIdx=%d, rIdx=%d) deviates by %g from the field-aligned Lagrange/spline formula "
                                          "(d=%s cells, twist %g rad/cell, b_z=%g, nz=%d, theta space %s)" % (vi, ri, err, d0, tau, bz[ri], nz, sp.key()),
                                          {"space": sp.key(), "nz": nz, "iota": iota, "R0": R0, "r": rs.tolist(), "v": vs.tolist(), "dt": dt, "rIdx": ri, "vIdx": vi,
                                           "line_coefficients": L.coeffs})
                        if alpha == 0 and iota == 0.0:
                            shifted = np.roll(L.f, -int(s0), axis=1)
                            if not np.max(np.abs(f - shifted)) <= 1e-9:
                                ctx.violation({"kind": "not-an-exact-shift", "path": sp.kind}, "whole-cell displacement %d without twist is not a circular shift (dev %g)" % (
                                    s0, float(np.max(np.abs(f - shifted)))), {"space": sp.key(), "nz": nz, "shift": int(s0)})
                # constants are preserved and the step is linear (direct consequences, checked on the code as well)
                one = np.ones_like(L.f)
                op.step(one, len(vs) // 2, 1)
                if not np.max(np.abs(one - 1.0)) <= 1e-12:
                    ctx.violation({"kind": "constants-not-preserved", "path": sp.kind}, "a constant field changes by %g" % float(np.max(np.abs(one - 1.0))),
                                  {"space": sp.key(), "nz": nz, "iota": iota})
    # whole-cell displacements on a NON-dyadic z step (dz = 0.1, 0.3, 1/7: the quotient displacement / dz is then not the exact integer
    # in floating point): without twist the step must still be the circular shift, up to rounding - whichever way the code rounds the foot
    nshift = 0
    for sp in spaces[:2]:
        for dz in (0.1, 0.3, 1.0 / 7.0):
            nz = 9
            L = fa.Lines(sp, nz, rng)
            for dt in (1.0, -0.5):
                ks = [k for k in (-11, -4, -3, -1, 1, 2, 3, 7, 10)]
                vs = np.array(sorted(-k * dz / dt for k in ks))          # displacement -v*dt = k*dz exactly in real arithmetic
                eta = [np.array([0.5, 2.0]), L.theta, np.arange(nz, dtype=float) * dz, vs]
                c = fa.consts(0.0, 1.0)
                op = FluxSurfaceAdvection(eta, [L.basis, None], Layout("flux_surface", [1], [0, 3, 1, 2], eta, [0]), dt, c)
                for vi in range(len(vs)):
                    k = int(round(-vs[vi] * dt / dz))
                    f = L.f.copy()
                    op.step(f, vi, 1)
                    shifted = np.roll(L.f, -k, axis=1)
                    nshift += 1
                    ctx.count((sp.key(), "non-dyadic dz", dz, dt, vi))
                    dev = float(np.max(np.abs(f - shifted))) if np.all(np.isfinite(f)) else float("inf")
                    if not dev <= 1e-9:
                        ctx.violation({"kind": "not-an-exact-shift", "path": sp.kind, "non_dyadic_dz": True},
                                      "displacement of %d whole cells (dz=%r, v=%r, dt=%r) without twist is not a circular shift (dev %g)" % (
                                          k, dz, float(vs[vi]), dt, dev), {"space": sp.key(), "nz": nz, "dz": dz, "v": float(vs[vi]), "dt": dt})
    ctx.extra["whole_cell_shifts_on_non_dyadic_steps"] = nshift
    # the grid-level entry point applies that step to every local (r, v) surface with the surface's own indices, on every process grid
    from harness import gridops
    ctx.extra["grid_level_blocks_compared"] = gridops.check_grid_level(ctx, rng, "flux")
    ctx.extra["cases"] = ncase
    ctx.extra["max_abs_deviation"] = worst
    ctx.traces = ncase
    ctx.sample({"lagrange_weights_alpha_1_4": [str(x) for x in lag[Fr(1, 4)]]})
    ctx.sample({"theta_space": spaces[0].key()})
