"""C11 - v-parallel advection evaluates the interpolant at v - c*dt; boundary rule holds.

Spec: Advection (foot classification, periodic image, rule per boundary mode; checked on a box by AdvectionMC), BSplines
tables (clamped v splines: general degree 1-5 and the uniform-cubic fast path), C11Trace.  The real
VParallelAdvection.step runs on data generated from integer coefficient vectors; for every node TLC decides from the exact
foot position which rule applies and demands the matching value.  The grid-level steps are judged by the slice events of
an instrumented driver run (gradient taken at the slice's own global position).
"""
import json
import math
import os
import random
import shutil
import subprocess
import sys
import tempfile
from fractions import Fraction as Fr

import numpy as np

from harness.core import Machinery, VERIF
from harness import splineoracle as so
from harness import scenarios

LEVEL = "model_checking"
UNIT = 120


def run(ctx):
    from pygyro.advection.advection import VParallelAdvection
    from pygyro.initialisation.constants import Constants
    from pygyro.initialisation import initialiser_funcs as init
    rng = random.Random(ctx.seed)
    quick = ctx.quick()
    ctx.rule = ("cases = (clamped v space: degree 1-5 general path / uniform-cubic fast path, integer breakpoints) x (boundary mode fEq / "
                "null / periodic) x (c*dt in eighths of a cell: 0, fractions, multi-cell, beyond the domain width, either sign) x radius; "
                "one event per node; grid level: slice events of instrumented driver runs on 2 process grids; distinct = (space, mode, "
                "c*dt, node); non-trivial = c*dt != 0")
    r = ctx.tlc("AdvectionMC", "INIT Init\nNEXT Next\nCONSTANTS N = 6 GMax = 6 MDen = 4\nINVARIANT IWrap\nINVARIANT IHeun\nCHECK_DEADLOCK FALSE\n",
                what="foot classification / periodic image / Heun rules on a box", workers=4)
    if r.violated:
        raise Machinery("Advection.tla violates %s:\n%s" % (r.violated, r.trace_text))
    spaces = [s for s in so.run_box(ctx, 5, 4 if quick else 6, 6, kinds=("clamped", "cu")) if s.ncells >= 2]
    ctx.exhaustive = True
    rng.shuffle(spaces)
    keep, seen = [], {}
    for s in spaces:
        k = (s.p, s.kind, s.uniform)
        if seen.get(k, 0) < (2 if quick else 6):
            seen[k] = seen.get(k, 0) + 1
            keep.append(s)
    from harness import physics
    c = physics.general_constants()
    events, meta = [], []
    for sp in keep:
        a, h = -3.0, 0.5
        basis = sp.make(a, h)
        v = np.array(basis.greville, dtype=float)
        xi = [min(max(so.to_int_coord(x, a, h), Fr(sp.br[0])), Fr(sp.br[-1])) for x in v]
        # nodes must be integers in the common unit
        # ideal nodes: multiples of 1/120 of a cell (Greville points of degree <= 5 on integer knots; thirds for the fast path);
        # the code's float nodes agree to rounding, exactly when the node is a binary fraction
        ideal = [Fr(round(x * UNIT), UNIT) for x in xi]
        if any(abs(float(x - y)) > 1e-12 for x, y in zip(xi, ideal)):
            ctx.note("space %s: interpolation points %s are not multiples of 1/%d of a cell, skipped" % (sp.key(), [float(x) for x in xi], UNIT))
            continue
        exactnode = [x == y for x, y in zip(xi, ideal)]
        xi = ideal
        coef = [rng.randint(-9, 9) for _ in range(sp.nb)]
        f0 = np.array([float(sp.spline(coef, x)) for x in xi])
        width = sp.br[-1] - sp.br[0]
        shifts8 = [0, 1, -3, 8, -8, 5 * 8 // 2, 8 * width, -8 * width, 8 * width + 4, -(8 * width + 3), 3 * 8 * width + 1, rng.randint(-80, 80)]
        for mode_arg in ("fEq", "null", "periodic", None):
            # (None: the operator built without the argument, as the driver builds it - the documented default is the equilibrium mode)
            mode = mode_arg or "fEq"
            op = VParallelAdvection([None, None, None, v], basis, c, mode) if mode_arg else VParallelAdvection([None, None, None, v], basis, c)
            # the same operator object serves the whole sequence of calls; it contains runs with the SAME speed and different
            # time steps (and the same time step with different speeds): a step must depend on its arguments only
            plan = [(s8, rng.choice([0.5, 1.0, 2.0])) for s8 in (shifts8 + [8 * width])]        # incl. shifts of more than one and more than three domain widths
            plan += [(8, 1.0), (4, 0.5), (0, 0.0), (16, 2.0), (-12, -1.5), (-6, -0.75)]      # speed 8h/1 = 4h/0.5 = 16h/2: same c, other dt
            for s8, dt in plan:
                cdt = Fr(s8, 8)                    # in cells
                cc = (float(cdt) * h / dt) if dt != 0 else 8.0 * h      # exact: powers of two
                rr = rng.choice([c.rMin, 3.3, 9.1, c.rMax])
                f = f0.copy()
                ok, err = True, ""
                try:
                    op.step(f, dt, cc, rr)
                except Exception as ex:
                    ok, err = False, "%s: %s" % (type(ex).__name__, ex)
                for i in range(len(v)):
                    foot = xi[i] - cdt
                    footN = foot * UNIT
                    lo, hi = Fr(sp.br[0]), Fr(sp.br[-1])
                    inside = lo <= foot <= hi
                    w = foot
                    while w < lo:
                        w += width
                    while w > hi:
                        w -= width
                    vfoot = a + h * float(foot)
                    tol = 1e-9 * 10
                    got = f[i] if ok else float("nan")
                    edge = bool((foot == lo or foot == hi or (mode == "periodic" and (foot - lo) % width == 0)) and not exactnode[i])
                    e = {"k": "vpar", "edge": edge, "foot": int(footN), "vmin": int(lo * UNIT), "vmax": int(hi * UNIT), "mode": mode, "wrap": int(w * UNIT), "ok": ok,
                         "m_interp": bool(inside and abs(got - float(sp.spline(coef, foot))) <= tol),
                         "m_feq": bool(abs(got - physics.f_eq(rr, vfoot, c)) <= 1e-12),
                         "m_zero": bool(got == 0.0),
                         "m_image": bool(abs(got - float(sp.spline(coef, w))) <= tol), "err": err}
                    events.append(e)
                    meta.append({"space": sp.key(), "mode": mode, "cdt_cells": str(cdt), "node": i, "r": rr, "dt": dt, "got": got})
    # grid level: instrumented driver runs (see C05)
    work = tempfile.mkdtemp(prefix="c11_")
    try:
        cfile = scenarios.write_constants(os.path.join(work, "c.json"), npts=[6, 8, 9, 8], iotaVal=0.8, eps=0.05)
        for g in ([2, 2], [1, 3]):
            job = {"work": os.path.join(work, "g%d%d" % tuple(g)), "cfile": cfile, "S": 5, "nprocs": g, "tEnd": scenarios.CONSTANTS["dt"], "folder": "F"}
            p = subprocess.run([sys.executable, "-m", "harness.drv05"], input=json.dumps(job), capture_output=True, text=True, cwd=VERIF,
                               env=dict(os.environ, PYTHONHASHSEED="0"), timeout=1800)
            if p.returncode != 0:
                raise Machinery("driver subprocess failed: " + p.stderr[-1500:])
            o = json.loads(p.stdout)
            for s in o["slices"]:
                if s["op"] == "vpar":
                    events.append({"k": "slices", "op": "vpar", "calls": s["calls"], "notown": s["notown"], "own": s["own"], "used": s["used"]})
                    meta.append({"grid_level": True, "nprocs": g, "rank": s["rank"], "calls": s["calls"]})
    finally:
        shutil.rmtree(work, ignore_errors=True)
    rej, _ = ctx.validate_trace("C11Trace", events, what="nodes of VParallelAdvection.step calls + grid-level slice events (%d)" % len(events))
    for j, (e, m) in enumerate(zip(events, meta), 1):
        ctx.count(None if (e["k"] == "vpar" and m["cdt_cells"] == "0") else json.dumps(m, sort_keys=True, default=str))
        if j in rej:
            sig = {"kind": e["k"], "clause": rej[j][0]}
            if e["k"] == "vpar":
                sig.update({"mode": e["mode"], "path": "cu" if "cu" in str(m["space"]) else "general"})
            ctx.violation(sig, "%s rejected by C11Trace clauses %s; event %s" % (m, rej[j], {k: v for k, v in e.items() if k != "id"}), {"event": e, "meta": m})
    ctx.extra["spaces"] = len(keep)
    # "the grid-level step uses, for each (r,z,theta) line, the parallel gradient of the potential at that same global position":
    # gridStep / gridStepKeepGradient against `step` applied by hand to every local line with its own gradient entry and radius
    from harness import gridops
    ctx.extra["grid_level_blocks_compared"] = gridops.check_grid_level(ctx, rng, "vpar")
    # ... and with a weak potential (|c dt| of 1e-8 and less): a line that moves little still moves
    ctx.extra["grid_level_blocks_compared"] += gridops.check_grid_level(ctx, rng, "vpar", grids=([1, 1], [2, 2]), amp=1e-6)
    ctx.sample({"meta": meta[3], "event": events[3]})
    ctx.sample({"meta": meta[-1], "event": events[-1]})
