"""C12 - poloidal advection traces 2nd-order ExB characteristics and interpolates at the foot.

Spec: Advection (Heun step and boundary rule in exact rationals; C12Feet evaluates it per node), BSplines tables (periodic
theta x clamped r tensor splines).  Exactly solvable families: constant potential (identity), phi = omega r^2/2 (rigid
rotation), theta-only potentials (pure radial displacement: distinguishes Heun from Euler, fixes the 1/2 and which
derivative drives which coordinate, exercises the three boundary fills), implicit trapezoid on the same family (fixed point
of the exact map), explicit vs implicit to third order, termination under a wall-clock cap.
"""
import copy
import json
import math
import os
import random
import signal
from fractions import Fraction as Fr

import numpy as np

from harness.core import Machinery
from harness import splineoracle as so
from harness import fieldalign as fa

LEVEL = "model_checking"


class _TO(Exception):
    pass


def _alarm(s, f):
    raise _TO()


def capped(fn, cap=20.0):
    signal.signal(signal.SIGALRM, _alarm)
    signal.setitimer(signal.ITIMER_REAL, cap)
    try:
        fn()
        return True
    except _TO:
        return False
    finally:
        signal.setitimer(signal.ITIMER_REAL, 0)


def tensor_nodes(st, sr, C, xt, xr):
    Bt = np.array([[float(st.basis(a, x)) for a in range(st.nb)] for x in xt])
    Br = np.array([[float(sr.basis(b, x)) for b in range(sr.nb)] for x in xr])
    return Bt @ np.array(C, dtype=float) @ Br.T


def tensor_eval(st, sr, C, xt, xr):
    bt = [st.basis(a, xt) for a in range(st.nb)]
    br = [sr.basis(b, xr) for b in range(sr.nb)]
    return sum(C[a][b] * bt[a] * br[b] for a in range(st.nb) for b in range(sr.nb) if C[a][b] and bt[a] and br[b])


def run(ctx):
    from pygyro.advection.advection import PoloidalAdvection
    from pygyro.splines import splines as spl
    from pygyro.splines.spline_interpolators import SplineInterpolator2D
    from pygyro.initialisation import initialiser_funcs as init
    rng = random.Random(ctx.seed)
    quick = ctx.quick()
    ctx.rule = ("cases = (periodic theta space x clamped r space, general degree 1-3 or fast path) x (family: constant, rigid rotation, "
                "theta-only) x (scheme explicit/implicit) x (edge mode zero / equilibrium) x dt of either sign; one comparison per node, "
                "nodes whose exact foot or stage-1 radius lies within 1e-9 of the radial boundary excluded; distinct = (spaces, family, "
                "scheme, edge, dt, node); non-trivial = node actually displaced")
    r0 = ctx.tlc("AdvectionMC", "INIT Init\nNEXT Next\nCONSTANTS N = 6 GMax = 6 MDen = 4\nINVARIANT IWrap\nINVARIANT IHeun\nCHECK_DEADLOCK FALSE\n",
                 what="Heun / boundary rules on a box", workers=4)
    if r0.violated:
        raise Machinery("Advection.tla violates %s" % r0.violated)
    tsp = fa.theta_spaces(ctx, maxcells=8, mincells=7)
    rsp = [s for s in so.run_box(ctx, 3, 5, 5, kinds=("clamped", "cu"), uniform_only=True, mincells=3, what="clamped r spaces, uniform breakpoints")]
    ctx.exhaustive = True
    pairs = []
    for st in tsp:
        for sr in rsp:
            # the drift must be continuous for the characteristic ODE (and the implicit fixed point) to be well defined:
            # potentials are C^1 splines, i.e. degree >= 2 in both directions (degree 1 has kinks at every node)
            if (st.kind == "cu") == (sr.kind == "cu") and st.p >= 2 and sr.p >= 2:
                pairs.append((st, sr))
    rng.shuffle(pairs)
    pairs = pairs[:4 if quick else 16]
    from harness import physics
    c = physics.general_constants(iotaVal=0.0, R0=1.0)
    ncmp, nskip, worst = 0, 0, 0.0
    queries, pending = [], []
    for pi_, (st, sr) in enumerate(pairs):
        ht = 2 * math.pi / st.ncells
        bt = st.make(0.0, ht)
        br = sr.make(1.0, 1.0)                      # r = 1 + xi : rMin = 1
        th = np.array(bt.greville, dtype=float)
        rr = np.array(br.greville, dtype=float)
        # ideal node positions in cell units (multiples of 1/120; the code's float nodes agree to rounding)
        xt = [Fr(round(so.to_int_coord(x, 0.0, ht) * 120), 120) for x in th]
        xr = [Fr(round(so.to_int_coord(x, 1.0, 1.0) * 120), 120) for x in rr]
        C = [[rng.randint(-5, 5) for _ in range(sr.nb)] for _ in range(st.nb)]
        for j in range(st.p):
            C[st.ncells + j] = list(C[j])
        f0 = tensor_nodes(st, sr, C, xt, xr)
        eta = [rr, th, np.array([0.0, 1.0]), np.array([0.0])]
        vval = 0.7
        rmin, rmax = Fr(1), Fr(1 + sr.br[-1])
        for expl in (True, False):
            for nul in (True, False):
                def mk(B0):
                    cc = copy.copy(c)
                    cc.B0 = B0
                    return PoloidalAdvection(eta, [bt, br], cc, nulEdge=nul, explicitTrap=expl, tol=1e-12)
                m0 = {"theta_space": st.key(), "r_space": sr.key(), "explicit": expl, "nulEdge": nul}
                # (a) constant potential: identity
                op = mk(1.0)
                phi = spl.Spline2D(bt, br)
                phi.coeffs[:] = 3.25
                f = f0.copy()
                if not capped(lambda: op.step(f, 0.7, phi, vval)):
                    ctx.violation({"kind": "does-not-terminate", "explicit": expl}, "step with constant potential did not return within 20 s", m0)
                elif not np.max(np.abs(f - f0)[:, 1:-1]) <= 1e-9:       # feet of the two boundary radii lie ON the boundary: outside the quantifier
                    ctx.violation({"kind": "constant-potential-changes-f", "explicit": expl, "nulEdge": nul}, "constant potential changes f by %g" % float(np.max(np.abs(f - f0)[:, 1:-1])), m0)
                ctx.count((pi_, "const", expl, nul))
                # (b) rigid rotation (needs r^2 in the r space)
                if True:
                    for omega, dt in ((0.8, 0.5), (-1.3, 0.25), (0.4, -1.0)):
                        vals = np.array([[omega * r * r / 2 for r in rr] for _ in th])
                        phi = spl.Spline2D(bt, br)
                        SplineInterpolator2D(bt, br).compute_interpolant(vals, phi)
                        B0 = 1.6
                        op = mk(B0)
                        f = f0.copy()
                        if not capped(lambda: op.step(f, dt, phi, vval)):
                            ctx.violation({"kind": "does-not-terminate", "explicit": expl}, "rigid-rotation step did not return within 20 s", m0)
                            continue
                        want = np.zeros_like(f0)
                        for i, t in enumerate(th):
                            tf = math.fmod(t - omega * dt / B0, 2 * math.pi)
                            if tf < 0:
                                tf += 2 * math.pi
                            xq = min(max(so.to_int_coord(tf, 0.0, ht), Fr(0)), Fr(st.br[-1]))
                            for j in range(len(rr)):
                                want[i, j] = float(tensor_eval(st, sr, C, xq, xr[j]))
                        err = float(np.max(np.abs(f - want)[:, 1:-1]))      # boundary radii: feet on the boundary, excluded
                        worst = max(worst, err)
                        ncmp += f[:, 1:-1].size
                        ctx.count((pi_, "rot", expl, nul, omega, dt))
                        if not err <= 1e-7:
                            ctx.violation({"kind": "rigid-rotation", "explicit": expl}, "phi = omega r^2/2 (omega=%g, dt=%g, B0=%g): result deviates by %g from f rotated by omega*dt/B0" % (
                                omega, dt, B0, err), dict(m0, omega=omega, dt=dt))
                # (c) theta-only potentials: pure radial displacement
                g = st.wrap([rng.randint(-4, 4) for _ in range(st.nb)])
                # ONE operator object for the whole sequence of steps (different dt and potentials): a step must be a function
                # of its arguments only, whatever the object did before
                ops = {}
                g2 = st.wrap([rng.randint(-4, 4) for _ in range(st.nb)])
                seq = ((0.5, 1.0, g), (0.5, 1.0, g2), (-0.75, 1.0, g), (0.5, 1.0, g2), (-0.5, 1.0, g), (1.0, 0.5, g2)) if not quick else ((0.5, 1.0, g), (0.5, 1.0, g2), (-0.75, 1.0, g), (-0.75, 1.0, g2))
                for dt, B0p, gg in seq:
                    if B0p not in ops:
                        ops[B0p] = mk(B0p / ht)
                    op = ops[B0p]
                    gp = [st.spline(gg, x, 1) for x in xt]
                    # the potential spline object is REUSED and refreshed in place (as gridStep does with its per-plane splines)
                    if "phi" not in ops:
                        ops["phi"] = spl.Spline2D(bt, br)
                    phi = ops["phi"]
                    phi.coeffs[:] = np.array([[float(gg[a])] * sr.nb for a in range(st.nb)])
                    f = f0.copy()
                    done = capped(lambda: op.step(f, dt, phi, vval))
                    if not done:
                        ctx.violation({"kind": "does-not-terminate", "explicit": expl}, "theta-only step did not return within 20 s", dict(m0, dt=dt))
                        continue
                    m = Fr(dt) / Fr(B0p)
                    for i in range(len(th)):
                        for j in range(len(rr)):
                            qid = len(queries) + 1
                            queries.append({"id": qid, "r": [xr[j].numerator + xr[j].denominator, xr[j].denominator],
                                            "g": [gp[i].numerator, gp[i].denominator], "m": [m.numerator, m.denominator],
                                            "rmin": [int(rmin), 1], "rmax": [int(rmax), 1]})
                            pending.append((qid, st, sr, C, xt[i], 1 + xr[j], gp[i], m, float(f[i, j]), float(f0[i, j]), expl, nul, vval, None, dict(m0, dt=dt, node=[i, j]), rmin, rmax))
    # TLC evaluates the Heun step and the rule for every node
    res = ctx.tlc("C12Feet", "INIT Init\nNEXT Next\nINVARIANT IHeun\nINVARIANT Dump\nCHECK_DEADLOCK FALSE\n", what="Heun feet of %d nodes" % len(queries),
                  files={"queries.json": json.dumps(queries)}, env={"QUERY_FILE": "queries.json"}, workers=16)
    if res.violated:
        raise Machinery("C12Feet violates %s: %s" % (res.violated, (res.trace_text or "")[:800]))
    feet = {x["id"]: x for x in res.rows}
    for (qid, st, sr, C, xti, r, g, m, got, old, expl, nul, vval, P, m0, rmin, rmax) in pending:
        row = feet[qid]
        r1 = Fr(*row["r1"])
        if expl:
            foot = Fr(*row["rfoot"])
            rule = row["rule_null"] if nul else row["rule_feq"]
            if min(abs(foot - rmin), abs(foot - rmax), abs(r1 - rmin), abs(r1 - rmax)) < Fr(1, 10 ** 9):
                nskip += 1
                continue
        else:
            # implicit trapezoid: fixed point of x = r + A/r + A/x, A = g m / 2 (root continuous in A); compared only when it is
            # strictly inside the domain (the iteration clips to the boundary, and boundary feet are outside the quantifier)
            A = float(g * m / 2)
            rf = float(r)
            b = rf + A / rf
            disc = b * b + 4 * A
            if disc < 0:
                nskip += 1
                continue
            x = (b + math.sqrt(disc)) / 2
            if not (float(rmin) + 1e-6 < x < float(rmax) - 1e-6):
                nskip += 1
                continue
            e1 = rf + 2 * A / rf              # the Euler predictor must stay inside as well, else the first iterate is clipped
            foot = Fr(x)
            rule = "interpolant"
        if rule == "interpolant":
            want = float(tensor_eval(st, sr, C, xti, foot - 1))
        elif rule == "zero":
            want = 0.0
        elif rule == "equilibrium-at-rMin":
            want = physics.f_eq(float(rmin), vval, c)
        else:
            want = physics.f_eq(float(foot), vval, c)
        err = abs(got - want)
        ncmp += 1
        worst = max(worst, err) if rule == "interpolant" else worst
        ctx.count(None if g == 0 else (str(m0["theta_space"]), str(m0["r_space"]), expl, nul, m0["dt"], tuple(m0["node"])))
        if not err <= (1e-8 if expl else 1e-6):
            ctx.violation({"kind": "theta-only-foot", "explicit": expl, "nulEdge": nul, "rule": rule},
                          "theta-only potential: node %s (r=%s, d_theta phi=%s, dt/B0'=%s) returns %r; the %s step gives foot r=%s -> %s -> %r" % (
                              m0["node"], r, g, m, got, "Heun" if expl else "implicit trapezoid", float(foot), rule, want),
                          dict(m0, r=str(r), g=str(g), m=str(m), foot=str(foot) if expl else float(foot), rule=rule))
    # (e) explicit vs implicit agree to third order in dt, (f) termination
    st = next(s for s in tsp if s.kind == "cu" and s.ncells >= 8)
    sr = next(s for s in rsp if s.kind == "cu" and s.ncells >= 5)
    ht = 2 * math.pi / st.ncells
    bt, br = st.make(0.0, ht), sr.make(1.0, 1.0)
    th, rr = np.array(bt.greville), np.array(br.greville)
    eta = [rr, th, np.array([0.0, 1.0]), np.array([0.0])]
    phi = spl.Spline2D(bt, br)
    SplineInterpolator2D(bt, br).compute_interpolant(np.array([[0.3 * r * r * (1 + 0.2 * math.cos(t)) + 0.1 * math.sin(2 * t) for r in rr] for t in th]), phi)
    fs = np.array([[math.exp(-((r - 3.2) ** 2)) * (1 + 0.5 * math.sin(t)) for r in rr] for t in th])
    diffs = []
    for dt in (0.2, 0.1, 0.05):
        out = []
        for expl in (True, False):
            op = PoloidalAdvection(eta, [bt, br], c, nulEdge=True, explicitTrap=expl, tol=1e-13)
            f = fs.copy()
            if not capped(lambda: op.step(f, dt, phi, 0.0)):
                ctx.violation({"kind": "does-not-terminate", "explicit": expl}, "smooth-potential step did not return within 20 s (dt=%g)" % dt, {"dt": dt})
            out.append(f)
        inner = (slice(None), slice(1, -1))
        diffs.append(float(np.max(np.abs(out[0][inner] - out[1][inner]))))
    ratios = [diffs[0] / diffs[1] if diffs[1] else float("inf"), diffs[1] / diffs[2] if diffs[2] else float("inf")]
    # "the implicit iteration terminates" - with the operator's DEFAULT tolerance (the drivers above pass their own), on a spatially
    # varying potential; run in a subprocess so that a non-terminating iteration becomes a verdict instead of a hang
    import subprocess
    import sys
    from harness.core import VERIF
    try:
        pr = subprocess.run([sys.executable, "-m", "harness.c12term"], cwd=VERIF, capture_output=True, text=True, timeout=150,
                            env=dict(os.environ, VERIF_REPO=os.environ.get("VERIF_REPO", "/repo")))
        term_ok, term_msg = (pr.returncode == 0 and "DONE" in pr.stdout), (pr.stdout + pr.stderr)[-300:]
    except subprocess.TimeoutExpired:
        term_ok, term_msg = False, "no result after 150 s (unmodified code: about 3 s)"
    ctx.count(("implicit-default-tolerance-terminates",))
    if not term_ok:
        ctx.violation({"kind": "implicit-iteration-does-not-terminate", "default_tolerance": True},
                      "three implicit steps with the operator's default tolerance did not complete: %s" % term_msg, {})
    if term_ok:
        try:
            errs = [float(x) for x in next(l for l in pr.stdout.splitlines() if l.startswith("ORDER ")).split()[1:]]
            conv = float(next(l for l in pr.stdout.splitlines() if l.startswith("CONV ")).split()[1])
            form = float(next(l for l in pr.stdout.splitlines() if l.startswith("FORM ")).split()[1])
        except Exception as ex:
            raise Machinery("c12term output not understood: %s / %s" % (ex, pr.stdout[-300:]))
        ctx.count(("implicit-default-tolerance-third-order",))
        ctx.count(("implicit-default-tolerance-converged",))
        ratios = [a / b for a, b in zip(errs, errs[1:]) if b > 0]
        if not all(r >= 6.0 for r in ratios):
            ctx.violation({"kind": "explicit-implicit-not-third-order", "default_tolerance": True},
                          "explicit and default-tolerance implicit step differ by %s for dt = 2^-3 .. 2^-8 (interior nodes): not third order" % errs, {"errs": errs})
        ctx.count(("step-on-a-strided-view",))
        if not form <= 1e-13:
            ctx.violation({"kind": "strided-argument", "default_tolerance": True},
                          "a step on a strided view of the caller's array differs by %g from the step on a contiguous copy (or wrote outside the view)" % form, {"dev": form})
        if not conv <= 1e-9:
            ctx.violation({"kind": "implicit-iteration-not-converged", "default_tolerance": True},
                          "the implicit step with the operator's default tolerance differs by %g from the same step iterated to 1e-12 (interior nodes, "
                          "sheared vortex, dt = 0.3, -0.5; unmodified code: about 3e-11)" % conv, {"dev": conv})
    # the grid-level entry points (per-z potential splines, reused by gridStep_SplinesUnchanged) against `step` applied by hand to every
    # local (v, z) plane with the plane's own velocity and potential
    from harness import gridops
    ctx.extra["grid_level_blocks_compared"] = gridops.check_grid_level(ctx, rng, "pol")
    ctx.extra["explicit_vs_implicit_differences"] = diffs
    ctx.extra["ratios_on_halving_dt"] = ratios
    ctx.count(("third-order", tuple(diffs)))
    if not all(4.5 <= x <= 14 for x in ratios):
        ctx.violation({"kind": "explicit-implicit-order"}, "explicit and implicit variants differ by %s for dt = 0.2, 0.1, 0.05 (ratios %s, third order expects 8)" % (diffs, ratios), {})
    ctx.extra.update({"node_comparisons": ncmp, "nodes_excluded_near_boundary": nskip, "max_abs_deviation_interpolant": worst})
    ctx.traces = ncmp
    ctx.sample({"query": queries[0], "tlc_row": feet[1]})
    ctx.sample({"pair": [pairs[0][0].key(), pairs[0][1].key()]})
