"""C13 - parallel gradient is the field-aligned finite-difference derivative.

Spec: Stencils (first-derivative finite-difference weights for orders 2-6 as exact rationals, verified by their moment
conditions; centred for even order; the three loop regimes equal the plain modulo), BSplines tables (theta splines).
Each (order) x (theta space) x (nz) x (rotational transform) x (radius index incl. distributed layouts) is one test of
ParallelGradient.parallel_gradient against  b_z(r)/dz * sum_k w_k S_{(j+k) mod nz}(theta_i + k*tau).
"""
import random
from fractions import Fraction as Fr

import numpy as np

from harness import fieldalign as fa
from harness.checks.c10 import stencil_rows

LEVEL = "model_checking"


def run(ctx):
    from pygyro.advection.advection import ParallelGradient
    from pygyro.model.layout import Layout
    rng = random.Random(ctx.seed)
    quick = ctx.quick()
    ctx.rule = ("cases = (order 2..6) x (periodic theta space degree 1-3 / fast path, 7-9 cells) x (nz from order+1 up) x (rotational "
                "transform 0 / non-zero) x (layout: serial, radius distributed over 2-3 processes) x every local radius index; potentials "
                "from integer coefficient vectors per z line; distinct = (order, space, nz, iota, layout, rank coordinate, radius); all non-trivial")
    _, fd = stencil_rows(ctx)
    spaces = fa.theta_spaces(ctx)
    ctx.exhaustive = True
    rng.shuffle(spaces)
    spaces = spaces[:3 if quick else len(spaces)]
    ncase, worst = 0, 0.0
    for sp in spaces:
        for order in (2, 3, 4, 5, 6):
            nodes, w = fd[order + 1]
            for nz in sorted({order + 1, order + 2, 9 if quick else 11}):
                # (9.5: a transform so large that the outer stencil points are turned by more than a full turn in theta)
                for iota in (0.0, 0.8, "r-dependent", "integer-radii") + ((9.5, -9.5) if nz == order + 1 else ()):
                    L = fa.Lines(sp, nz, rng)
                    R0 = 2.0
                    rs = np.array([0.5, 1.0, 1.7, 2.5, 3.1])
                    dz = 0.5
                    eta = [rs, L.theta, np.arange(nz, dtype=float) * dz, np.array([0.0, 1.0])]
                    intr = iota == "integer-radii"          # a radial grid of integer dtype (as some of the repository's own set-ups use)
                    if intr:
                        iota = 0.8
                        rs = np.array([1, 2, 3, 4, 5])
                        eta = [rs, L.theta, np.arange(nz, dtype=float) * dz, np.array([0.0, 1.0])]
                    rdep = isinstance(iota, str)
                    # the operator evaluates iota(r) per radius (tables per surface): a transform that depends on r, negative inside
                    iof = (lambda r: 0.6 * np.asarray(r, dtype=float) - 0.7) if rdep else (lambda r: np.full_like(np.asarray(r, dtype=float), iota))
                    c = fa.consts(0.0 if rdep else iota, R0)
                    if rdep:
                        c.iota = iof
                    # (process grid, rank coordinates, dimension ordering): the radius first (the driver's layout) or second
                    for (nprocs, coords, order_) in (([1], [[0]], [0, 2, 1]), ([2], [[0], [1]], [0, 2, 1]), ([3], [[2]], [0, 2, 1]),
                                                     ([1, 2], [[0, 1]], [2, 0, 1])):
                        for rc in coords:
                            lay = Layout("v_parallel_1d", nprocs, order_, eta[:3], rc)
                            rpos = order_.index(0)
                            try:
                                if nprocs == [1]:
                                    # an operator built BEFORE on the same theta spline, sizes and radii but with another transform
                                    # (and then dropped) has no bearing on this one
                                    ParallelGradient(L.basis, eta, lay, fa.consts(0.37, R0), order)
                                pg = ParallelGradient(L.basis, eta, lay, c, order)
                            except Exception as ex:
                                ctx.violation({"kind": "constructor-raises", "error": type(ex).__name__, "order": order}, "ParallelGradient raised %s: %s (nz=%d, order=%d)" % (
                                    type(ex).__name__, ex, nz, order), {"space": sp.key(), "nz": nz, "order": order})
                                continue
                            phi_r = L.f.T.copy()                # [z, theta]
                            # two sweeps over the local radii on the SAME object (the driver calls it for every radius twice per
                            # time step): a call must not depend on earlier calls
                            for li, gr in [(a_, b_) for _sweep in range(2) for a_, b_ in enumerate(range(lay.starts[rpos], lay.ends[rpos]))]:
                                der = np.full_like(phi_r, np.nan)
                                try:
                                    pg.parallel_gradient(phi_r, li, der)
                                except Exception as ex:
                                    ctx.violation({"kind": "gradient-raises", "error": type(ex).__name__, "order": order}, "parallel_gradient raised %s: %s" % (type(ex).__name__, ex),
                                                  {"space": sp.key(), "nz": nz, "order": order})
                                    continue
                                io = float(iof(rs[gr]))
                                tau = io * dz / R0
                                bz = 1.0 / np.sqrt(1.0 + (rs[gr] * io / R0) ** 2)
                                want = np.zeros_like(phi_r)
                                for m in range(nz):
                                    for i, th in enumerate(L.theta):
                                        acc = Fr(0)
                                        for k, wk in zip(nodes, w):
                                            if wk != 0:
                                                acc += wk * L.eval(m + k, th + k * tau)
                                        want[m, i] = float(acc) * bz / dz
                                err = float(np.max(np.abs(der - want)))
                                worst = max(worst, err)
                                ncase += 1
                                ctx.count((order, sp.key(), nz, iota, tuple(nprocs), tuple(rc), tuple(order_), gr))
                                if not err <= 1e-8:
                                    ctx.violation({"kind": "value", "order": order, "iota_zero": iota == 0.0, "iota_r_dependent": rdep, "distributed": nprocs != [1], "path": sp.kind},
                                                  "parallel_gradient (order %d, local radius index %d = global %d, layout %s rank %s) deviates by %g from "
                                                  "b_z/dz * sum_k w_k S_(j+k)(theta + k tau); nz=%d, tau=%g, theta space %s" % (
                                                      order, li, gr, nprocs, rc, err, nz, tau, sp.key()),
                                                  {"space": sp.key(), "nz": nz, "order": order, "iota": iota, "R0": R0, "r": rs.tolist(), "dz": dz,
                                                   "nprocs": nprocs, "rank": rc, "local_radius": li, "line_coefficients": L.coeffs})
                    # zero on constants
                    lay = Layout("v_parallel_1d", [1], [0, 2, 1], eta[:3], [0])
                    pg = ParallelGradient(L.basis, eta, lay, c, order)
                    one = np.ones((nz, L.ntheta))
                    der = np.empty_like(one)
                    pg.parallel_gradient(one, 1, der)
                    if not np.max(np.abs(der)) <= 1e-11:
                        ctx.violation({"kind": "nonzero-on-constants", "order": order}, "gradient of a constant is %g" % float(np.max(np.abs(der))),
                                      {"space": sp.key(), "nz": nz, "order": order})
    ctx.extra["cases"] = ncase
    ctx.extra["max_abs_deviation"] = worst
    ctx.traces = ncase
    ctx.sample({"fd_weights": {str(n - 1): [str(x) for x in fd[n][1]] for n in fd}})
    ctx.sample({"theta_space": spaces[0].key()})
