"""C14 - elliptic solver returns the per-mode Galerkin solution of the radial equation.

Spec: Galerkin (mode table, unknown ranges, ill-posedness, exact strong-form left-hand side of a manufactured spline
solution as polynomials per cell; evaluated by TLC in GalerkinMC), BSplines tables.  With TLC's forcing as right-hand
side the real solveEquationForFunction must return the manufactured spline at the radial nodes, for every basis direction
of the unknown range and every boundary / coefficient / mode class; the grid path is tied to the function path; linearity,
Dirichlet zeros, mode independence and the refusal of pure-Neumann modes are checked on the code.
"""
import json
import random
from fractions import Fraction as Fr

import numpy as np

from harness.core import Machinery
from harness import splineoracle as so

LEVEL = "model_checking"
POLYS = {"B": [[0], [1], [0, 1], [1, -1]], "C": [[0], [1], [1, 1], [0, 0, 1]], "D": [[-1], [0, -1], [-1, 0, -1]], "E": [[1], [1, 1], [2, 0, 1]]}


def pfun(co):
    return lambda r: sum(float(a) * r ** k for k, a in enumerate(co))


def make_grid(eta, layout_name="mode_solve"):
    from mpi4py import MPI
    from pygyro.model.layout import getLayoutHandler
    from pygyro.model.grid import Grid
    h = getLayoutHandler(MPI.COMM_WORLD, {"v_parallel_2d": [0, 2, 1], "mode_solve": [1, 2, 0]}, [1, 1], eta)
    return Grid(eta, [None] * 3, h, layout_name, MPI.COMM_WORLD, dtype=np.complex128)


def modes_job(comm, nprocs, p, ncells, nth, seed, out, factor=1.0):
    """solveEquation with the poloidal modes distributed over processes (mode_solve layout): 'treats modes independently' - the mode a
    process solves is the one of its GLOBAL index, with that mode's boundary conditions."""
    from pygyro.model.layout import getLayoutHandler
    from pygyro.model.grid import Grid
    from pygyro.poisson.poisson_solver import DiffEqSolver
    rk = comm.Get_rank()
    basis = space_objs(p, ncells, 1, False)
    rn = np.array(basis.greville, dtype=float)
    eta = [rn, np.arange(nth, dtype=float), np.arange(3, dtype=float)]
    h = getLayoutHandler(comm, {"v_parallel_2d": [0, 2, 1], "mode_solve": [1, 2, 0]}, list(nprocs), eta)
    rho = Grid(eta, [None] * 3, h, "mode_solve", comm, dtype=np.complex128)
    phi = Grid(eta, [None] * 3, h, "mode_solve", comm, dtype=np.complex128)
    R = np.random.RandomState(seed)
    G = (R.uniform(-1, 1, (nth, 3, len(rn))) + 1j * R.uniform(-1, 1, (nth, 3, len(rn)))) * factor       # global (mode, z, r)
    lay = h.getLayout("mode_solve")
    rho.getAllData()[:] = G[lay.starts[0]:lay.ends[0], lay.starts[1]:lay.ends[1], lay.starts[2]:lay.ends[2]]
    phi.getAllData()[:] = 0
    solver = DiffEqSolver(2 * p + 4, basis, len(rn), nth, lNeumannIdx=[0, 2], uNeumannIdx=[-1], rFactor=lambda r: 1.0 + 0.1 * r, drFactor=lambda r: 1.0 / r)
    solver.solveEquation(phi, rho)
    out[rk] = ([int(x) for x in lay.starts], [int(x) for x in lay.ends], np.array(phi.getAllData()).copy())


def space_objs(p, ncells, r0, cu):
    from pygyro.splines import splines as spl
    brk = np.arange(ncells + 1, dtype=float) + r0
    return spl.BSplines(spl.make_knots(brk, p, False), p, False, bool(cu))


def run(ctx):
    from pygyro.poisson.poisson_solver import DiffEqSolver
    from pygyro.splines import splines as spl
    rng = random.Random(ctx.seed)
    quick = ctx.quick()
    ctx.rule = ("queries = (radial space: clamped degree 2-5 and uniform-cubic input, 2-8 equal cells starting at r0 in {1,2}) x (theta "
                "count 6-8, every mode index class: 0, +-1, +-2, Nyquist) x (Dirichlet/Neumann per side) x (A in {-1,-2}, polynomial B, C, D "
                "with small integer coefficients) x (manufactured solution = each basis function of the unknown range and seeded integer "
                "combinations); distinct = query contents; all non-trivial")
    queries, info = [], []
    nq = 60 if quick else 400
    while len(queries) < nq:
        p = rng.choice([2, 3, 3, 4, 5])
        cu = (p == 3 and rng.random() < 0.5)
        ncells = rng.randint(max(2, 1), 8 if p <= 3 else 5)
        r0 = rng.choice([1, 2])
        nth = rng.choice([6, 7, 8])
        I = rng.choice([0, 1, 2, nth // 2, nth - 1, nth - 2])
        m = I if I < (nth + 1) // 2 else I - nth
        lN = rng.random() < 0.5
        uN = (not lN) and rng.random() < 0.3
        A = rng.choice([-1, -2])
        B, C, D = rng.choice(POLYS["B"]), rng.choice(POLYS["C"]), rng.choice(POLYS["D"])
        # "quadrature of the requested exactness": one query in five asks for exactly the exactness its integrands need, an EVEN
        # number (C = r^3: C phi psi r has degree 2p + 4), so that one Gauss point too few is no longer exact
        tight = len(queries) % 5 == 4
        if tight:
            p, cu, ncells, r0, C = rng.choice([2, 3]), False, rng.randint(2, 4), 1, [0, 0, 0, 1]
        if lN and uN and C == [0]:
            continue
        nb = ncells + p
        lo, hi = (1 if lN else 2), (nb if uN else nb - 1)
        if hi - lo < 1:
            continue
        coef = [0] * nb
        if rng.random() < 0.6:            # one basis direction of the unknown range
            k = rng.randint(lo, hi)
            coef[k - 1] = rng.choice([1, -2, 3])
        else:
            for k in range(lo, hi + 1):
                coef[k - 1] = rng.randint(-4, 4)
        if lN:
            coef[0] = coef[1]
        if uN:
            coef[-1] = coef[-2]
        if not any(coef):
            continue
        q = {"id": len(queries) + 1, "p": p, "ncells": ncells, "r0": r0, "coef": coef, "A": A, "B": B, "C": C, "D": D, "msq": m * m, "lN": lN, "uN": uN, "mI": 0, "nth": 1}
        queries.append(q)
        info.append({"cu": cu, "nth": nth, "I": I, "m": m, "exactness": (2 * p + 4) if tight else (2 * p + 8)})
    r = ctx.tlc("GalerkinMC", "INIT Init\nNEXT Next\nCONSTANT NMax = 16\nINVARIANT IModes\nINVARIANT IBC\nINVARIANT Dump\nCHECK_DEADLOCK FALSE\n",
                what="mode tables to 16 theta points + exact forcing of %d manufactured solutions" % len(queries),
                files={"queries.json": json.dumps(queries)}, env={"QUERY_FILE": "queries.json"}, workers=16)
    if r.violated:
        raise Machinery("Galerkin.tla violates %s: %s" % (r.violated, (r.trace_text or "")[:1000]))
    rows = {x["id"]: x for x in r.rows if x["kind"] == "forcing"}
    modes = {x["n"]: x for x in r.rows if x["kind"] == "modes"}
    ctx.exhaustive = True
    worst = 0.0
    for q, inf in zip(queries, info):
        row = rows[q["id"]]
        g = [[Fr(*c) for c in cell] for cell in row["g"]]
        phi_p = [[Fr(*c) for c in cell] for cell in row["phi"]]
        p, ncells, r0 = q["p"], q["ncells"], q["r0"]
        basis = space_objs(p, ncells, r0, inf["cu"])
        rn = np.array(basis.greville, dtype=float)
        nth = inf["nth"]
        eta = [rn, np.arange(nth, dtype=float), np.array([0.0, 1.0])]
        gf = [[float(c) for c in cell] for cell in g]

        def rho(rv, gf=gf, ncells=ncells, r0=r0):
            rv = np.asarray(rv, dtype=float)
            c = np.clip(np.floor(rv - r0).astype(int), 0, ncells - 1)
            s = rv - r0 - c
            out = np.zeros_like(rv)
            for ci in range(ncells):
                msk = c == ci
                if msk.any():
                    acc = np.zeros(msk.sum())
                    for a in reversed(gf[ci]):
                        acc = acc * s[msk] + a
                    out[msk] = acc
            return out
        m = inf["m"]
        sig0 = {"degree": p, "cu_input": inf["cu"], "lNeumann": q["lN"], "uNeumann": q["uN"], "mode_zero": m == 0}
        try:
            solver = DiffEqSolver(inf["exactness"], basis, len(rn), nth, lNeumannIdx=[m] if q["lN"] else [], uNeumannIdx=[m] if q["uN"] else [],
                                  ddrFactor=lambda r_, A=q["A"]: A, drFactor=pfun(q["B"]), rFactor=pfun(q["C"]), ddThetaFactor=pfun(q["D"]))
            phi = make_grid(eta)
            phi.getAllData()[:] = 0
            import warnings
            with warnings.catch_warnings():
                warnings.simplefilter("ignore")
                solver.solveEquationForFunction(phi, rho)
            got = np.array(phi.get1DSlice(inf["I"], 0))
        except Exception as ex:
            ctx.violation(dict(sig0, kind="solver-raises", error=type(ex).__name__), "DiffEqSolver raised %s: %s on query %s" % (type(ex).__name__, ex, q), {"query": q, "info": inf})
            continue
        # exact phi at the radial nodes
        want = np.zeros(len(rn))
        for j, x in enumerate(rn):
            xq = Fr(round((x - r0) * 120), 120)
            c = min(int(xq), ncells - 1)
            s = xq - c
            acc = Fr(0)
            for a in reversed(phi_p[c]):
                acc = acc * s + a
            want[j] = float(acc)
        err = float(np.max(np.abs(got - want)))
        scale = max(1.0, float(np.max(np.abs(want))))
        worst = max(worst, err / scale)
        ctx.count(json.dumps(q, sort_keys=True))
        if not err <= 1e-7 * scale:
            ctx.violation(dict(sig0, kind="manufactured-solution"),
                          "manufactured spline solution not reproduced (max dev %g): mode index %d (m=%d) of %d, degree %d, %d cells from r=%d, "
                          "BC %s/%s, A=%s B=%s C=%s D=%s, coefficients %s" % (err, inf["I"], m, nth, p, ncells, r0, "N" if q["lN"] else "D", "N" if q["uN"] else "D",
                                                                             q["A"], q["B"], q["C"], q["D"], q["coef"]),
                          {"query": q, "info": inf, "got": [complex(x).real for x in got], "want": want.tolist()})
        if abs(np.max(np.abs(np.imag(got)))) > 1e-12:
            ctx.violation(dict(sig0, kind="imaginary-part"), "real right-hand side gives imaginary part %g" % float(np.max(np.abs(np.imag(got)))), {"query": q})
    # ---- the weak form itself: exact rational Galerkin solution (harness.weakform on TLC's basis-polynomial tables) for right-hand sides
    # that are NOT manufactured from a known solution, with exactly the quadrature exactness the integrands need (an even number: one
    # Gauss point too few is then no longer exact, and its error does not cancel as it does for a manufactured right-hand side)
    from harness import weakform as wf
    from harness import splineoracle as so
    tabs = [sp for sp in so.run_box(ctx, 4, 5, 5, kinds=("clamped",), uniform_only=True, what="clamped uniform spaces for the exact weak form")
            if sp.ncells >= 2 and sp.p >= 1]
    nweak = 0
    for t in range(10 if quick else 80):
        sp = rng.choice(tabs)
        p, ncells, r0 = sp.p, sp.ncells, rng.choice([1, 2])
        nth = rng.choice([6, 7, 8])
        I = rng.choice([0, 1, 2, nth // 2, nth - 1])
        m = I if I < (nth + 1) // 2 else I - nth
        lN = rng.random() < 0.4
        A = rng.choice([-1, -2])
        B, D = rng.choice(POLYS["B"]), rng.choice(POLYS["D"])
        C = rng.choice([[0, 0, 0, 1], [1, 0, 0, 1], [0, 1, 0, 2]])                      # degree 3: C phi psi r has degree 2p + 4
        E = rng.choice(POLYS["E"])
        rho = [rng.randint(-3, 3) for _ in range(p + 4 - len(E))] + [1]                     # E rho psi r has degree 2p + 4 as well
        co = wf.galerkin(sp, r0, A, B, C, D, E, rho, m * m, lN, False)
        basis = space_objs(p, ncells, r0, p == 3 and t % 2 == 0)
        rn = np.array(basis.greville, dtype=float)
        eta = [rn, np.arange(nth, dtype=float), np.array([0.0, 1.0])]
        want = np.array([float(sp.spline(co, Fr(round((x - r0) * 120), 120))) for x in rn])
        rf, ef = pfun(rho), pfun(E)
        sig0 = {"degree": p, "lNeumann": lN, "mode_zero": m == 0, "exactness": 2 * p + 4}
        try:
            solver = DiffEqSolver(2 * p + 4, basis, len(rn), nth, lNeumannIdx=[m] if lN else [], ddrFactor=lambda r_, A=A: A,
                                  drFactor=pfun(B), rFactor=pfun(C), ddThetaFactor=pfun(D), rhoFactor=ef)
            phi = make_grid(eta)
            phi.getAllData()[:] = 0
            import warnings
            with warnings.catch_warnings():
                warnings.simplefilter("ignore")
                solver.solveEquationForFunction(phi, lambda rv: ef(np.asarray(rv, dtype=float)) * rf(np.asarray(rv, dtype=float)))
            got = np.real(np.array(phi.get1DSlice(I, 0)))
        except Exception as ex:
            ctx.violation(dict(sig0, kind="solver-raises", error=type(ex).__name__), "DiffEqSolver raised %s: %s (weak-form case %d)" % (type(ex).__name__, ex, t), {"case": t})
            continue
        nweak += 1
        ctx.count(("weak-form", sp.key(), r0, nth, I, lN, A, tuple(B), tuple(C), tuple(D), tuple(E), tuple(rho)))
        scale = max(1.0, float(np.max(np.abs(want))))
        err = float(np.max(np.abs(got - want)))
        worst = max(worst, err / scale)
        if not err <= 1e-8 * scale:
            ctx.violation(dict(sig0, kind="galerkin-solution"),
                          "the solver's result deviates by %g (relative %g) from the exact Galerkin solution: degree %d, %d cells from r=%d, mode m=%d, BC %s/D, "
                          "A=%s B=%s C=%s D=%s E=%s rho=%s, requested exactness %d" % (err, err / scale, p, ncells, r0, m, "N" if lN else "D", A, B, C, D, E, rho, 2 * p + 4),
                          {"space": sp.key(), "r0": r0, "m": m, "A": A, "B": B, "C": C, "D": D, "E": E, "rho": rho, "got": got.tolist(), "want": want.tolist()})
    ctx.extra["exact_weak_form_solutions_compared"] = nweak
    # ---- modes distributed over processes: the result does not depend on which process solves which mode
    from mpi4py import MPI
    for (p_, nc_, nth_) in ((3, 5, 8), (2, 4, 7)):
        ref = None
        for g in ([1, 1], [2, 1], [4, 1], [2, 2]):
            n_ = int(np.prod(g))
            out = [None] * n_
            rs = MPI.run(n_, modes_job, policy="random", seed=rng.randint(0, 999), args=(g, p_, nc_, nth_, 3, out))
            if not rs.ok:
                ctx.violation({"kind": "solver-raises", "error": rs.describe().split(":")[0][:60], "modes_distributed": True},
                              "solveEquation with modes distributed over process grid %s: %s" % (g, rs.describe()[:300]), {"nprocs": g})
                continue
            full = np.zeros((nth_, 3, nc_ + p_), dtype=complex)
            for st, en, blk in out:
                full[st[0]:en[0], st[1]:en[1], st[2]:en[2]] = blk
            if g == [1, 1]:
                ref = full
                # complex linearity: the solution of i*rho is i times the solution of rho (mode amplitudes are complex numbers)
                out_i = [None]
                ri = MPI.run(1, modes_job, args=(g, p_, nc_, nth_, 3, out_i, 1j))
                if ri.ok:
                    dev_i = float(np.max(np.abs(out_i[0][2] - 1j * full)))
                    ctx.count(("complex-linearity", p_, nc_, nth_))
                    if not dev_i <= 1e-11 * max(1.0, float(np.max(np.abs(full)))):
                        ctx.violation({"kind": "not-complex-linear"}, "solveEquation(i*rho) differs from i*solveEquation(rho) by %g (degree %d, %d modes)" % (dev_i, p_, nth_),
                                      {"degree": p_, "nth": nth_})
                else:
                    ctx.violation({"kind": "solver-raises", "error": ri.describe().split(":")[0][:60]}, "solveEquation(i*rho): %s" % ri.describe()[:300], {})
            ctx.count(("modes-distributed", p_, nc_, nth_, tuple(g)))
            if ref is not None and not np.max(np.abs(full - ref)) <= 1e-11 * max(1.0, float(np.max(np.abs(ref)))):
                bad = sorted({int(i) for i in np.argwhere(np.abs(full - ref) > 1e-11 * max(1.0, float(np.max(np.abs(ref)))))[:, 0]})
                ctx.violation({"kind": "mode-depends-on-process", "modes_distributed": True},
                              "solveEquation on process grid %s differs from the serial result in the mode rows %s (max dev %g): the modes are not treated "
                              "independently of their distribution" % (g, bad, float(np.max(np.abs(full - ref)))), {"nprocs": g, "degree": p_, "nth": nth_})
    # ---- relations on the code: grid path = function path with E*rho, linearity, Dirichlet zeros, mode independence, refusal
    for t in range(8 if quick else 60):
        p = rng.choice([2, 3, 4])
        cu = (p == 3 and t % 2 == 0)
        ncells = rng.randint(3, 7)
        r0 = 1
        nth = rng.choice([6, 7, 10, 12, 14])          # (mode numbers of a count that is no power of two are not dyadic fractions times it)
        basis = space_objs(p, ncells, r0, cu)
        rn = np.array(basis.greville, dtype=float)
        eta = [rn, np.arange(nth, dtype=float), np.array([0.0, 1.0])]
        B, C, D, E = rng.choice(POLYS["B"]), rng.choice(POLYS["C"][1:]), rng.choice(POLYS["D"]), rng.choice(POLYS["E"])
        lNi = [[], [0], [3, -2], [-3, 1]][t % 4]
        solver = DiffEqSolver(2 * p + 8, basis, len(rn), nth, lNeumannIdx=lNi, drFactor=pfun(B), rFactor=pfun(C), ddThetaFactor=pfun(D), rhoFactor=pfun(E))
        gen = spl.BSplines(spl.make_knots(np.arange(ncells + 1, dtype=float) + r0, p, False), p, False, False)
        s1, s2 = spl.Spline1D(gen), spl.Spline1D(gen)
        s1.coeffs[:] = [rng.randint(-5, 5) for _ in range(gen.nbasis)]
        s2.coeffs[:] = [rng.randint(-5, 5) for _ in range(gen.nbasis)]

        def solve_grid(vals_per_mode):
            rho_g = make_grid(eta)
            phi_g = make_grid(eta)
            rho_g.getAllData()[:] = 0
            for I, v in vals_per_mode.items():
                rho_g.get1DSlice(I, 0)[:] = v
                rho_g.get1DSlice(I, 1)[:] = v
            solver.solveEquation(phi_g, rho_g)
            return np.array(phi_g.getAllData()).copy()
        v1, v2 = s1.eval(rn.copy()), s2.eval(rn.copy())
        a = 2.5
        all1 = {I: v1 * (1 + 0.5j) for I in range(nth)}
        P1 = solve_grid(all1)
        P2 = solve_grid({I: v2 for I in range(nth)})
        P12 = solve_grid({I: a * v1 * (1 + 0.5j) + v2 for I in range(nth)})
        ctx.count(("relations", t))
        if not np.max(np.abs(P12 - (a * P1 + P2))) <= 1e-9 * max(1.0, float(np.max(np.abs(P12)))):
            ctx.violation({"kind": "not-linear"}, "solveEquation is not linear in rho (dev %g)" % float(np.max(np.abs(P12 - (a * P1 + P2)))), {"p": p, "ncells": ncells})
        # Dirichlet ends
        for I in range(nth):
            mI = I if I < (nth + 1) // 2 else I - nth
            if mI not in lNi and abs(P1[I, 0, 0]) > 1e-12:
                ctx.violation({"kind": "dirichlet-not-zero", "side": "lower"}, "mode %d: value %r at the lower Dirichlet boundary" % (I, complex(P1[I, 0, 0])), {})
            if mI in lNi and not abs(P1[I, 0, 0]) > 1e-9 * float(np.max(np.abs(P1[I, 0, :]))):
                ctx.violation({"kind": "neumann-mode-pinned", "nTheta": nth}, "mode %d of %d (m = %d) was requested Neumann at the lower boundary but its solution "
                              "vanishes there (%r; largest value of the mode %g)" % (I, nth, mI, complex(P1[I, 0, 0]), float(np.max(np.abs(P1[I, 0, :])))),
                              {"nTheta": nth, "lNeumannIdx": lNi, "p": p, "ncells": ncells})
            if abs(P1[I, 0, -1]) > 1e-12:
                ctx.violation({"kind": "dirichlet-not-zero", "side": "upper"}, "mode %d: value %r at the upper Dirichlet boundary" % (I, complex(P1[I, 0, -1])), {})
        # mode independence
        I0 = rng.randrange(nth)
        Ps = solve_grid({I0: v1 * (1 + 0.5j)})
        if not np.max(np.abs(Ps[I0] - P1[I0])) <= 1e-12 * max(1.0, float(np.max(np.abs(P1)))) or np.max(np.abs(np.delete(Ps, I0, axis=0))) > 1e-12:
            ctx.violation({"kind": "modes-not-independent"}, "zeroing the other modes changes mode %d or leaks into them" % I0, {})
        # grid path (nodal values of the spline rho) = function path with E*rho as function
        phi_f = make_grid(eta)
        phi_f.getAllData()[:] = 0
        Ef = pfun(E)
        solver.solveEquationForFunction(phi_f, lambda rv: Ef(np.asarray(rv)) * s2.eval(np.asarray(rv, dtype=float).copy()))
        Pf = np.array(phi_f.getAllData())
        if not np.max(np.abs(Pf - P2)) <= 1e-8 * max(1.0, float(np.max(np.abs(P2)))):
            ctx.violation({"kind": "grid-path-vs-function-path"}, "solveEquation(nodal values of a spline rho) and solveEquationForFunction(E*rho) differ by %g" % float(np.max(np.abs(Pf - P2))),
                          {"p": p, "ncells": ncells, "E": E})
    # a Neumann condition is honoured for EVERY mode number of EVERY mode count (also counts that are no power of two, where
    # k / n * n need not be k in floating point): the solution of that mode does not vanish at the lower boundary
    basis = space_objs(3, 5, 1, False)
    rn = np.array(basis.greville, dtype=float)
    for nth in ((10, 14) if quick else (6, 10, 12, 14, 18, 20, 24)):
        eta = [rn, np.arange(nth, dtype=float), np.array([0.0])]
        for m in range(-(nth // 2), (nth + 1) // 2):
            solver = DiffEqSolver(10, basis, len(rn), nth, lNeumannIdx=[m], rFactor=lambda r: 1.0)
            rho_g, phi_g = make_grid(eta), make_grid(eta)
            rho_g.getAllData()[:] = (1.0 + 0.25 * rn)[None, None, :]
            solver.solveEquation(phi_g, rho_g)
            P = np.array(phi_g.getAllData())
            I = m % nth
            ctx.count(("neumann-honoured", nth, m))
            if not abs(P[I, 0, 0]) > 1e-6 * float(np.max(np.abs(P[I, 0, :]))):
                ctx.violation({"kind": "neumann-mode-pinned", "nTheta": nth}, "mode m = %d of %d was requested Neumann at the lower boundary but its solution vanishes "
                              "there (%r; largest value of the mode %g)" % (m, nth, complex(P[I, 0, 0]), float(np.max(np.abs(P[I, 0, :])))), {"nTheta": nth, "m": m})
    # refusal of modes that are Neumann on both sides with C = 0; acceptance when C != 0
    basis = space_objs(3, 5, 1, False)
    refused = False
    try:
        DiffEqSolver(10, basis, basis.nbasis, 8, lNeumannIdx=[0], uNeumannIdx=[0])
    except Exception:
        refused = True
    if not refused:
        ctx.violation({"kind": "pure-neumann-accepted"}, "a mode with Neumann conditions on both sides and C = 0 was accepted", {})
    try:
        DiffEqSolver(10, basis, basis.nbasis, 8, lNeumannIdx=[0], uNeumannIdx=[0], rFactor=lambda r: 1.0)
    except Exception as ex:
        ctx.violation({"kind": "well-posed-neumann-refused"}, "Neumann/Neumann with C = 1 was refused: %s" % ex, {})
    ctx.count(("refusal",))
    try:        # a small C is not a zero C (the test for a null coefficient is exact)
        DiffEqSolver(10, basis, basis.nbasis, 8, lNeumannIdx=[0], uNeumannIdx=[0], rFactor=lambda r: 2e-9)
    except Exception as ex:
        ctx.violation({"kind": "well-posed-neumann-refused", "small_C": True}, "Neumann/Neumann with C = 2e-9 was refused: %s" % ex, {})
    try:        # C vanishes on part of the domain only: the constant is fixed, the problem is well posed
        DiffEqSolver(10, basis, basis.nbasis, 8, lNeumannIdx=[0], uNeumannIdx=[0], rFactor=lambda r: 0.0 if r < 3.0 else 1.0)
    except Exception as ex:
        ctx.violation({"kind": "well-posed-neumann-refused", "mode_zero": True}, "Neumann/Neumann with C = 0 for r < 3 and 1 beyond was refused: %s" % ex, {})
    # the same for every mode index: a mode that is Neumann on both sides is ill posed exactly when nothing fixes the free constant,
    # i.e. C = 0 and m^2 D = 0 (m = 0, or D = 0: Galerkin.tla, IllPosed); it must be refused then, and accepted when C != 0
    for mode in (0, 1, 2, -1, 4, 7):
        for (Dz, Cz) in ((True, True), (True, False), (False, False)):
            kw = {}
            if Dz:
                kw["ddThetaFactor"] = lambda r: 0.0
            if not Cz:
                kw["rFactor"] = lambda r: 1.0
            ill = Cz and (mode == 0 or Dz)
            try:
                DiffEqSolver(10, basis, basis.nbasis, 8, lNeumannIdx=[mode], uNeumannIdx=[mode, 3] if mode != 3 else [mode], **kw)
                accepted = True
            except ValueError:
                accepted = False
            ctx.count(("refusal", mode, Dz, Cz))
            if ill and accepted:
                ctx.violation({"kind": "pure-neumann-accepted", "mode_zero": mode == 0}, "mode %d with Neumann conditions on both sides, C = 0 and %s was accepted (ill posed)" % (
                    mode, "D = 0" if Dz else "m = 0"), {"mode": mode, "D_null": Dz})
            if (not Cz) and not accepted:
                ctx.violation({"kind": "well-posed-neumann-refused", "mode_zero": mode == 0}, "mode %d Neumann/Neumann with C = 1 was refused" % mode, {"mode": mode, "D_null": Dz})
    ctx.extra["manufactured_solutions"] = len(queries)
    ctx.extra["max_relative_deviation"] = worst
    ctx.extra["mode_table_8"] = modes[8]["m"]
    ctx.traces = len(queries)
    ctx.sample({"query": queries[0], "forcing_cell_1": [str(Fr(*c)) for c in rows[1]["g"][0]]})
    ctx.sample({"query": queries[-1]})
