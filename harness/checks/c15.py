"""C15 - quasi-neutrality pipeline: exact FFT round trip, real potential, equilibrium.

Spec: Galerkin (FFT-order mode table, m^2, unknown ranges; forcing of manufactured solutions with the SPEC's m^2 via
GalerkinMC), TimeStep (pipeline statements), C15Trace.  The distributed pipeline getModes -> layout change -> per-mode solve
-> layout change -> findPotential runs on simulated process grids for densities g(r)*trig(m0 theta)*zeta(z) whose exact
potential is a polynomial phi(r) times the same factors; the real QuasiNeutralitySolver is tied by relations between its
variants (chi, adiabatic / kinetic), and the equilibrium is run through the real driver.
"""
import itertools
import json
import math
import os
import random
import shutil
import subprocess
import sys
import tempfile
from fractions import Fraction as Fr

import numpy as np

from harness.core import Machinery, VERIF
from harness import scenarios
from harness.checks.c14 import POLYS, pfun, make_grid

LEVEL = "model_checking"
LAY = {"v_parallel_2d": [0, 2, 1], "mode_solve": [1, 2, 0]}


def esym(vals, k):
    e = [Fr(1)] + [Fr(0)] * k
    for v in vals:
        for j in range(k, 0, -1):
            e[j] += e[j - 1] * v
    return e[k]


def poly_to_spline(poly, knots, p, nb):
    """B-spline coefficients (Fractions) of the polynomial sum_k poly[k] x^k on the clamped knot vector (polar forms)."""
    out = []
    for i in range(nb):
        t = [Fr(x) for x in knots[i + 1:i + 1 + p]]
        out.append(sum(Fr(poly[k]) * esym(t, k) / math.comb(p, k) for k in range(len(poly))))
    return out


def pmul(a, b):
    out = [Fr(0)] * (len(a) + len(b) - 1)
    for i, x in enumerate(a):
        for j, y in enumerate(b):
            out[i + j] += Fr(x) * Fr(y)
    return out


def pipeline_job(comm, nprocs, eta, p, ncells, r0, coefs, gfun, phifun, m0, trig, out):
    from pygyro.model.grid import Grid
    from pygyro.model.layout import getLayoutHandler
    from pygyro.poisson.poisson_solver import DiffEqSolver
    from pygyro.splines import splines as spl
    from mpi4py import MPI as _M
    MPI_MAX = _M.MAX
    rk = comm.Get_rank()
    A, B, C, D = coefs
    basis = spl.BSplines(spl.make_knots(np.arange(ncells + 1, dtype=float) + r0, p, False), p, False, False)
    h1 = getLayoutHandler(comm, LAY, list(nprocs), eta)
    h2 = getLayoutHandler(comm, LAY, list(nprocs), eta)
    rho = Grid(eta, [None] * 3, h1, "v_parallel_2d", comm, dtype=np.complex128)
    phi = Grid(eta, [None] * 3, h2, "mode_solve", comm, dtype=np.complex128)
    lay = h1.getLayout("v_parallel_2d")        # (r, z, theta)
    rr = eta[0][lay.starts[0]:lay.ends[0]]
    zz = eta[2][lay.starts[1]:lay.ends[1]]
    th = eta[1]
    tf = np.cos(m0 * th) if trig == "cos" else np.sin(m0 * th)
    zeta = 1.0 + 0.25 * zz
    rho.getAllData()[:] = gfun(rr)[:, None, None] * zeta[None, :, None] * tf[None, None, :]
    d0 = rho.getAllData().copy()
    solver = DiffEqSolver(2 * p + 8, basis, len(eta[0]), len(th), lNeumannIdx=[0], ddrFactor=lambda r_: A, drFactor=pfun(B), rFactor=pfun(C), ddThetaFactor=pfun(D))
    # round trip of the transform alone
    solver.getModes(rho)
    modes_here = np.array(rho.getAllData()).copy()
    solver.findPotential(rho)
    same = bool(np.max(np.abs(rho.getAllData() - d0)) <= 1e-12 * max(1.0, float(np.max(np.abs(d0)))))
    rho.getAllData()[:] = d0
    # the pipeline as in the driver
    solver.getModes(rho)
    rho.setLayout("mode_solve")
    phi.setLayout("mode_solve")
    ml = h1.getLayout("mode_solve")
    # "non-zero" relative to the size of the data (the transform leaves rounding noise of 1e-16 * scale in the other modes)
    sc_r = comm.allreduce(float(np.max(np.abs(rho.getAllData()))) if rho.getAllData().size else 0.0, op=MPI_MAX)
    nz_modes = [int(I) for i, I in enumerate(range(ml.starts[0], ml.ends[0])) if np.max(np.abs(rho.getAllData()[i])) > 1e-9 * max(1.0, sc_r)]
    solver.solveEquation(phi, rho)
    sc_p = comm.allreduce(float(np.max(np.abs(phi.getAllData()))) if phi.getAllData().size else 0.0, op=MPI_MAX)
    nz_phi = [int(I) for i, I in enumerate(range(ml.starts[0], ml.ends[0])) if np.max(np.abs(phi.getAllData()[i])) > 1e-9 * max(1.0, sc_p)]
    phi.setLayout("v_parallel_2d")
    rho.setLayout("v_parallel_2d")
    solver.findPotential(phi)
    want = phifun(rr)[:, None, None] * zeta[None, :, None] * tf[None, None, :]
    got = np.array(phi.getAllData())
    sc = max(1.0, float(np.max(np.abs(want)))) if want.size else 1.0
    out[rk] = {"same": same, "nz_modes": nz_modes, "nz_phi": nz_phi,
               "dev": float(np.max(np.abs(got.real - want))) / sc if want.size else 0.0,
               "imag": float(np.max(np.abs(got.imag))) / sc if want.size else 0.0}


def qn_relations(ctx, rng, events, meta):
    from pygyro.poisson.poisson_solver import QuasiNeutralitySolver
    from pygyro.splines import splines as spl
    from pygyro.poisson.poisson_solver import DiffEqSolver
    from harness import physics
    c = physics.general_constants()        # kTe != kTi, CTe != CTi != 1, ...: a profile built from the twin constant shows
    for (nth, deg, cu) in ((8, 3, True), (7, 3, False), (6, 2, False)):
        nr = 12
        brk = np.linspace(c.rMin, c.rMax, nr - deg + 1 if not cu else nr - 2)
        basis = spl.BSplines(spl.make_knots(brk, deg, False), deg, False, cu)
        rn = np.array(basis.greville)
        eta = [rn, np.linspace(0, 2 * np.pi, nth, endpoint=False), np.array([0.0, 1.0])]
        BF = 1.7          # a magnetic field strength other than 1 (it enters as B^2 / Te and B^2 / n0)
        solvers = {"chi0": QuasiNeutralitySolver(eta, 7, basis, c, chi=0), "chi1": QuasiNeutralitySolver(eta, 7, basis, c, chi=1),
                   "kinetic": QuasiNeutralitySolver(eta, 7, basis, c, adiabaticElectrons=False),
                   "chi0B": QuasiNeutralitySolver(eta, 7, basis, c, chi=0, B=BF), "kineticB": QuasiNeutralitySolver(eta, 7, basis, c, adiabaticElectrons=False, B=BF)}
        g = np.exp(-((rn - 7.0) / 3.0) ** 2) * (rn - rn[0]) * (rn[-1] - rn)

        def solve(s, I0):
            rho, phi = make_grid(eta), make_grid(eta)
            rho.getAllData()[:] = 0
            rho.get1DSlice(I0, 0)[:] = g
            rho.get1DSlice(I0, 1)[:] = 2 * g
            s.solveEquation(phi, rho)
            return np.array(phi.getAllData()).copy()
        res = {k: {I0: solve(s, I0) for I0 in range(nth)} for k, s in solvers.items()}
        m0 = {"nth": nth, "degree": deg, "cu": cu}
        # the quasi-neutrality operator is the general elliptic operator (C14) with the coefficients of the stated equation
        #   -[d_r^2 + (1/r + n0'/n0) d_r + 1/r^2 d_theta^2] phi + phi / Te = rho / n0      (adiabatic; without the phi/Te term: kinetic)
        # written here from the model's profiles, independently of the code's initialiser functions
        def stated(adiabatic, Bv):
            kw = {"rFactor": (lambda r: Bv * Bv / physics.t_e(r, c))} if adiabatic else {}
            return DiffEqSolver(7, basis, rn.size, nth, drFactor=lambda r: -(1 / r + physics.n0_log_derivative(r, c)),
                                ddThetaFactor=lambda r: -1 / r ** 2, rhoFactor=lambda r: Bv * Bv / physics.n0(r, c), lNeumannIdx=[0], **kw)
        ind = {"chi0": stated(True, 1.0), "kinetic": stated(False, 1.0), "chi0B": stated(True, BF), "kineticB": stated(False, BF)}
        for k, s in ind.items():
            for I0 in range(nth):
                want = solve(s, I0)
                sc = max(1.0, float(np.max(np.abs(want))))
                events.append({"k": "relation", "name": "operator-is-the-stated-equation", "holds": bool(np.max(np.abs(res[k][I0] - want)) <= 1e-11 * sc)})
                meta.append(dict(m0, what="operator-is-the-stated-equation", solver=k, I0=I0, dev=float(np.max(np.abs(res[k][I0] - want))) / sc))

        def rel(name, holds, **kw):
            events.append({"k": "relation", "name": name, "holds": bool(holds)})
            meta.append(dict(m0, what=name, **kw))
        for I0 in range(nth):
            for k in solvers:
                P = res[k][I0]
                rel("response-only-in-the-driven-mode", np.max(np.abs(np.delete(P, I0, axis=0))) <= 1e-13 and np.max(np.abs(P[I0])) > 1e-9, solver=k, I0=I0)
                rel("upper-boundary-dirichlet", abs(P[I0, 0, -1]) <= 1e-12, solver=k, I0=I0)
                if I0 != 0:
                    rel("non-zero-modes-dirichlet-at-inner-radius", abs(P[I0, 0, 0]) <= 1e-12, solver=k, I0=I0)
                else:
                    rel("mode-zero-neumann-at-inner-radius", abs(P[0, 0, 0]) > 1e-9, solver=k)
                rel("linear-in-density", np.max(np.abs(P[I0, 1] - 2 * P[I0, 0])) <= 1e-11 * max(1.0, float(np.max(np.abs(P[I0])))), solver=k, I0=I0)
                if 0 < I0 < nth - I0:
                    rel("modes-I-and-n-minus-I-share-the-operator", np.max(np.abs(res[k][I0][I0] - res[k][nth - I0][nth - I0])) <= 1e-11 * max(1.0, float(np.max(np.abs(P[I0])))),
                        solver=k, I0=I0)
            if I0 != 0:
                rel("non-zero-modes-independent-of-chi", np.max(np.abs(res["chi0"][I0] - res["chi1"][I0])) <= 1e-12 * max(1.0, float(np.max(np.abs(res["chi0"][I0])))), I0=I0)
        rel("mode-zero-with-chi-1-drops-the-adiabatic-term", np.max(np.abs(res["chi1"][0][0] - res["kinetic"][0][0])) <= 1e-11 * max(1.0, float(np.max(np.abs(res["kinetic"][0][0])))))
        rel("mode-zero-depends-on-chi", np.max(np.abs(res["chi1"][0][0] - res["chi0"][0][0])) > 1e-6 * float(np.max(np.abs(res["chi0"][0][0]))))
        rel("adiabatic-response-differs-from-kinetic-for-non-zero-modes", np.max(np.abs(res["chi0"][1][1] - res["kinetic"][1][1])) > 1e-6 * float(np.max(np.abs(res["chi0"][1][1]))))


def run(ctx):
    from mpi4py import MPI
    from pygyro.splines import splines as spl
    rng = random.Random(ctx.seed)
    quick = ctx.quick()
    ctx.rule = ("pipeline cases = (theta count 6/7/8, driven mode m0 incl. 0 and Nyquist, cos / sin) x (polynomial coefficient set) x (process "
                "grid) with a polynomial manufactured potential in a degree-5 radial space; relations between QuasiNeutralitySolver variants "
                "for every driven mode index on 3 spaces; equilibrium through the real driver; distinct = (case, process grid) / (relation, "
                "space, solver, mode); non-trivial = all")
    p, ncells, r0 = 5, 4, 1
    a_, b_ = Fr(r0), Fr(r0 + ncells)
    knots = [r0] * p + list(range(r0, r0 + ncells + 1)) + [r0 + ncells] * p
    nb = ncells + p
    basis = spl.BSplines(spl.make_knots(np.arange(ncells + 1, dtype=float) + r0, p, False), p, False, False)
    rn = np.array(basis.greville, dtype=float)
    cases, queries = [], []
    for nth in (6, 7, 8):
        m0s = sorted({0, 1, 2, nth // 2}) if not quick else [0, 1, nth // 2]
        for m0 in m0s:
            for trig in ("cos", "sin"):
                if trig == "sin" and (m0 == 0 or 2 * m0 == nth):
                    continue
                A = -1
                B, C, D = rng.choice([[0], [1], [0, 1]]), rng.choice([[0], [1], [1, 1]]), rng.choice([[-1], [0, -1], [-1, 0, -1]])
                # polynomial solution: Dirichlet at both ends (m0 != 0) or Neumann at the inner radius (m0 = 0)
                if m0 == 0:
                    poly = pmul([b_, -1], pmul([-a_, 1], [-a_, 1]))
                else:
                    poly = pmul([-a_, 1], [b_, -1])
                co = poly_to_spline(poly, knots, p, nb)
                L = 1
                for x in co:
                    L = L * x.denominator // math.gcd(L, x.denominator)
                coef = [int(x * L) for x in co]
                q = {"id": len(queries) + 1, "p": p, "ncells": ncells, "r0": r0, "coef": coef, "A": A, "B": B, "C": C, "D": D, "msq": -1,
                     "mI": m0, "nth": nth, "lN": m0 == 0, "uN": False}
                queries.append(q)
                cases.append({"nth": nth, "m0": m0, "trig": trig, "poly": [x * L for x in poly], "coefs": (A, B, C, D), "qid": q["id"]})
    r = ctx.tlc("GalerkinMC", "INIT Init\nNEXT Next\nCONSTANT NMax = 16\nINVARIANT IModes\nINVARIANT IBC\nINVARIANT Dump\nCHECK_DEADLOCK FALSE\n",
                what="mode tables + forcing of %d polynomial manufactured potentials (m^2 from the mode table)" % len(queries),
                files={"queries.json": json.dumps(queries)}, env={"QUERY_FILE": "queries.json"}, workers=16)
    if r.violated:
        raise Machinery("Galerkin.tla violates %s: %s" % (r.violated, (r.trace_text or "")[:1000]))
    rows = {x["id"]: x for x in r.rows if x["kind"] == "forcing"}
    ctx.exhaustive = True
    events, meta = [], []
    pgs = [[1, 1], [2, 1], [1, 2], [2, 2], [3, 2]]
    for ci, cs in enumerate(cases):
        row = rows[cs["qid"]]
        g = [[float(Fr(*c)) for c in cell] for cell in row["g"]]
        if any(Fr(*row["g"][0][k]) != Fr(*row["g"][c][k]) for c in range(1, ncells) for k in range(0)):
            pass

        def gfun(rv, g=g):
            rv = np.asarray(rv, dtype=float)
            c = np.clip(np.floor(rv - r0).astype(int), 0, ncells - 1)
            s = rv - r0 - c
            out = np.zeros_like(rv)
            for k in range(len(rv)):
                acc = 0.0
                for a in reversed(g[c[k]]):
                    acc = acc * s[k] + a
                out[k] = acc
            return out

        def phifun(rv, poly=cs["poly"]):
            rv = np.asarray(rv, dtype=float)
            return sum(float(a) * rv ** k for k, a in enumerate(poly))
        nth = cs["nth"]
        eta = [rn, np.linspace(0, 2 * np.pi, nth, endpoint=False), np.arange(5, dtype=float)]
        for nprocs in ([pgs[ci % len(pgs)], pgs[(ci + 2) % len(pgs)]] if quick else pgs):
            n = int(np.prod(nprocs))
            out = [None] * n
            res = MPI.run(n, pipeline_job, policy="random", seed=ci, eager=bool(ci % 2),
                          args=(nprocs, eta, p, ncells, r0, cs["coefs"], gfun, phifun, cs["m0"], cs["trig"], out))
            m0 = {"nth": nth, "m0": cs["m0"], "trig": cs["trig"], "coefficients": cs["coefs"], "nprocs": nprocs}
            ok = bool(res.ok and all(o is not None for o in out))
            events.append({"k": "roundtrip", "ok": ok, "same": ok and all(o["same"] for o in out), "err": res.describe()})
            meta.append(dict(m0, what="roundtrip"))
            if ok:
                for name in ("nz_modes", "nz_phi"):
                    events.append({"k": "support", "n": nth, "m0": cs["m0"], "nonzero": sorted({I for o in out for I in o[name]})})
                    meta.append(dict(m0, what="support of " + name))
            events.append({"k": "potential", "ok": ok, "match": ok and max(o["dev"] for o in out) <= 1e-8, "real": ok and max(o["imag"] for o in out) <= 1e-10,
                           "err": res.describe()})
            meta.append(dict(m0, what="potential", max_dev=max(o["dev"] for o in out) if ok else None))
    qn_relations(ctx, rng, events, meta)
    # the QuasiNeutralitySolver pipeline itself (modes -> per-mode solve -> inverse transform) on a density with content in every mode,
    # a non-zero flux-surface average included, on every process grid: the potential of every grid is that of the serial run (which
    # the relation 'operator-is-the-stated-equation' above pins to the stated equation), and it is real
    from harness.checks.c05 import qn_job
    qn_npts = [8, 8, 6]
    ref = None
    for g in ([1, 1], [2, 1], [1, 2], [2, 2], [4, 1]):
        n = int(np.prod(g))
        out = [[] for _ in range(n)]
        rs = MPI.run(n, qn_job, policy="random", seed=rng.randint(0, 999), args=(g, qn_npts, 5, out))
        full = {}
        if rs.ok:
            for o in out:
                for chi, st, en, blk in o:
                    A = full.setdefault(chi, np.zeros([qn_npts[0], qn_npts[2], qn_npts[1]], dtype=complex))
                    A[st[0]:en[0], st[1]:en[1], st[2]:en[2]] = blk
        if g == [1, 1]:
            ref = full
        for chi in (0, 1):
            ok = bool(rs.ok and ref and chi in full and chi in ref)
            dev = imag = -1.0
            if ok:
                sc = float(np.max(np.abs(ref[chi]))) or 1.0
                dev = float(np.max(np.abs(full[chi] - ref[chi]))) / sc
                imag = float(np.max(np.abs(full[chi].imag))) / sc
            events.append({"k": "potential", "ok": ok, "match": ok and dev <= 1e-11, "real": ok and imag <= 1e-11, "err": rs.describe()[:300]})
            meta.append({"nth": qn_npts[1], "m0": "all", "trig": "random density", "coefficients": "quasi-neutrality, chi=%d" % chi, "nprocs": g,
                         "what": "QuasiNeutralitySolver pipeline vs serial run", "max_dev": dev})
    # equilibrium through the real driver (eps = 0)
    work = tempfile.mkdtemp(prefix="c15_")
    try:
        cfile = scenarios.write_constants(os.path.join(work, "c.json"), eps=0.0, npts=[6, 8, 8, 8], iotaVal=0.8)
        for nranks in (2, 4):          # 4 ranks: a 2x2 grid, radius AND z distributed
            job = {"work": os.path.join(work, "w%d" % nranks), "cfile": cfile, "S": 5, "nranks": nranks, "stops": [scenarios.CONSTANTS["dt"]], "folder": "F"}
            pr = subprocess.run([sys.executable, "-m", "harness.drv18"], input=json.dumps(job), capture_output=True, text=True, cwd=VERIF,
                                env=dict(os.environ, PYTHONHASHSEED="0"), timeout=1800)
            if pr.returncode != 0:
                raise Machinery("driver subprocess failed: " + pr.stderr[-1500:])
            o = json.loads(pr.stdout)
            from harness import h5emu
            ok = bool(o and o[-1]["ok"])
            fp, pz = False, False
            dev = pmax = None
            if ok:
                F = os.path.join(work, "w%d" % nranks, "F")
                with h5emu._real_File(os.path.join(F, "grid_000000.h5"), "r") as f0, h5emu._real_File(os.path.join(F, "grid_%06d.h5" % scenarios.CONSTANTS["dt"]), "r") as f1:
                    a, b = f0["dset"][...], f1["dset"][...]
                    dev = float(np.max(np.abs(a - b)) / np.max(np.abs(a)))
                    fp = dev <= 1e-11
                # at t = 0 the distribution IS the equilibrium: density and potential are exactly zero (identical table rows are
                # subtracted); after the step it is the equilibrium up to rounding of the advections, so the potential is ~1e-16
                with h5emu._real_File(os.path.join(F, "phi_000000.h5"), "r") as f:
                    p0 = float(np.max(np.abs(f["dset"][...])))
                with h5emu._real_File(os.path.join(F, "phi_%06d.h5" % scenarios.CONSTANTS["dt"]), "r") as f:
                    p1 = float(np.max(np.abs(f["dset"][...])))
                pmax = [p0, p1]
                pz = p0 == 0.0 and p1 <= 1e-12
            events.append({"k": "equilibrium", "ok": ok, "rho_zero": pz, "phi_zero": pz, "fixed_point": fp, "err": o[-1]["fault"][:300] if o else "no run"})
            meta.append({"what": "equilibrium through the real driver on %d ranks" % nranks, "rel_change_of_f": dev, "max_abs_phi": pmax})
    finally:
        shutil.rmtree(work, ignore_errors=True)
    # the pipeline as the driver issues it (one perturbed step on one and on two ranks): density of f into rho, modes of rho, layout
    # changes, solve for phi from rho, layout changes back, inverse transform of PHI - the quasi-neutrality statements of TimeStep.tla,
    # operands included, validated by C05Trace; only rejections of quasi-neutrality statements are this property's
    from harness.checks.c05 import drv as drv05
    work2 = tempfile.mkdtemp(prefix="c15d_")
    try:
        cf2 = scenarios.write_constants(os.path.join(work2, "c.json"), eps=0.05, npts=[6, 8, 8, 8], iotaVal=0.8)
        for g in ([1, 1], [2, 1]):
            o = drv05({"work": os.path.join(work2, "w%d" % g[0]), "cfile": cf2, "S": 5, "nprocs": g, "tEnd": scenarios.CONSTANTS["dt"], "folder": "F",
                       "policy": "random", "seed": 3, "eager": False})
            tev = [{"k": "start", "grid": "%dx%d" % tuple(g)}] + [{"k": "stmt", "op": st[0], "g": st[1], "to": st[2]} for st in o["stmts"]]
            rj, _ = ctx.validate_trace("C05Trace", tev, what="driver statements of one perturbed step on %s" % g, consts="CONSTANT MaxSteps = 1000\n",
                                       init="TInit", nxt="TNext", count=False)
            QN = ("density", "getModes", "solve", "findPotential")
            nqn = 0
            for j, e in enumerate(tev, 1):
                isqn = e.get("op") in QN or (e.get("op") == "setLayout" and e.get("g") in ("rho", "phi"))
                nqn += bool(isqn)
                if isqn:
                    ctx.count(("driver-qn-statement", tuple(g), j))
                if j in rj and isqn:
                    ctx.violation({"kind": "driver-pipeline-statement", "op": e.get("op"), "operand": e.get("g")},
                                  "the driver's quasi-neutrality pipeline issues %s(%s%s) where the time loop of TimeStep.tla has another statement (%s)" % (
                                      e.get("op"), e.get("g"), (", " + e["to"]) if e.get("to") else "", rj[j]), {"statement": e, "position": j, "nprocs": g})
            if not o["ok"] or nqn < 16:
                ctx.violation({"kind": "driver-pipeline-statement", "op": "run", "operand": ""}, "driver run on %s did not complete its quasi-neutrality pipeline (%d statements): %s" % (
                    g, nqn, o["fault"][:300]), {"nprocs": g})
        # the potential the DRIVER computes equals the mode-by-mode solution of the stated equation: its own solver object against
        # a second one that differs only in a much finer quadrature, on the modes the driver hands over (12 radial points)
        cf3 = scenarios.write_constants(os.path.join(work2, "c3.json"), eps=0.05, npts=[12, 8, 8, 8], iotaVal=0.8)
        o3 = drv05({"work": os.path.join(work2, "w3"), "cfile": cf3, "S": 5, "nprocs": [1, 1], "tEnd": 0, "folder": "F", "policy": "asc", "seed": 0,
                    "eager": False}, VERIF_QNREF="1")
        ctx.count(("driver-potential-vs-fine-quadrature",))
        qd = o3.get("qn_quadrature_dev")
        if not (o3["ok"] and qd and qd[1] > 0 and qd[0] <= 2e-4 * qd[1]):
            ctx.violation({"kind": "driver-potential", "what": "quadrature"},
                          "the potential the driver computes from its density modes deviates by %s (absolute, largest value) from the mode-by-mode solution "
                          "with a fine quadrature (unmodified code: relative 3e-6) %s" % (qd, o3["fault"][:200]), {"dev": qd})
    finally:
        shutil.rmtree(work2, ignore_errors=True)
    rej, _ = ctx.validate_trace("C15Trace", events, what="pipeline / relation / equilibrium events (%d)" % len(events))
    for j, (e, m) in enumerate(zip(events, meta), 1):
        ctx.count(json.dumps(m, sort_keys=True, default=str))
        if j in rej:
            sig = {"kind": e["k"], "clause": rej[j][0]}
            if e["k"] in ("potential", "support", "roundtrip"):
                sig["multi_process"] = bool(int(np.prod(m["nprocs"])) > 1)
                sig["m0_zero"] = m["m0"] == 0
            ctx.violation(sig, "%s rejected by C15Trace clauses %s; %s" % (m, rej[j], {k: v for k, v in e.items() if k != "id"}), {"event": e, "meta": m})
    ctx.extra["pipeline_cases"] = len(cases)
    ctx.sample({"case": {k: (str(v) if k in ("poly",) else v) for k, v in cases[0].items()}})
    ctx.sample({"meta": meta[-1], "event": events[-1]})
