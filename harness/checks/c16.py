"""C16 - density is the exact velocity integral of the interpolated distribution.

Spec: BSplines tables (exact integrals I_j of the basis functions, from BSplinesMC), Density (rho = sum_j c_j I_j, integer
scaled), C16Trace.  The real kernels get_rho / get_perturbed_rho and the class DensityFinder run on simulated ranks with
v-profiles generated from integer coefficient vectors; the results, scaled by the common denominator, must be the integers
TLC computes.  The equilibrium must give exactly zero perturbed density on every process grid.
"""
import math
import random
from fractions import Fraction as Fr

import numpy as np

from harness import splineoracle as so
from harness.core import to_int
from harness import simlayout as sl
from harness.scenarios import STD, CONSTANTS

LEVEL = "model_checking"


from harness.physics import feq_table, general_constants   # noqa: E402,F401


def lcm(a, b):
    return a * b // math.gcd(a, b)


class Consts:
    pass


def density_job(comm, shape, nprocs, vspace, a, h, coeffs, dtype, perturbed, out):
    """f(r,theta,z,v) = [perturbed: f_eq(r, v)] + sum_j c_j(r,theta,z) N_j(v) on the v grid of the space."""
    from pygyro.model.grid import Grid
    from pygyro.model.layout import getLayoutHandler
    from pygyro.poisson.poisson_solver import DensityFinder
    from pygyro.initialisation import initialiser_funcs as init
    from pygyro.initialisation.constants import Constants
    rk = comm.Get_rank()
    vb = vspace.make(a, h)
    vg = np.array(vb.greville, dtype=float)
    shape = list(shape[:3]) + [len(vg)]
    eta = [np.linspace(0.5, 12.0, shape[0]), np.arange(shape[1], dtype=float), np.arange(shape[2], dtype=float), vg]
    h4 = getLayoutHandler(comm, STD, list(nprocs), eta)
    h3 = getLayoutHandler(comm, {"v_parallel_2d": [0, 2, 1], "mode_solve": [1, 2, 0]}, list(nprocs), eta[:3])
    f = Grid(eta, [None] * 4, h4, "v_parallel", comm)
    rho = Grid(eta[:3], [None] * 3, h3, "v_parallel_2d", comm, dtype=dtype)
    c = general_constants()
    xi = [min(max(so.to_int_coord(x, a, h), Fr(vspace.br[0])), Fr(vspace.br[-1])) for x in vg]
    B = np.array([[float(vspace.basis(j, x)) for j in range(vspace.nb)] for x in xi])        # [v node, basis]
    lay = h4.getLayout("v_parallel")          # (r, z, theta, v)
    data = f.getAllData()
    df0 = DensityFinder(6, vb, eta, c)       # an earlier finder on the SAME v spline object must not disturb a later one (nor vice versa)
    df = DensityFinder(6, vb, eta, c)
    feq = feq_table(eta[0], eta[3], c)
    res = []
    for i, gr in enumerate(range(lay.starts[0], lay.ends[0])):
        for j, gz in enumerate(range(lay.starts[1], lay.ends[1])):
            for k in range(shape[1]):
                cv = np.array(coeffs[gr][k][gz], dtype=float)
                data[i, j, k, :] = B @ cv + (feq[gr, :] if perturbed else 0.0)
    rho.getAllData()[:] = (-777.0 - 555.0j) if np.dtype(dtype) == np.complex128 else -777.0     # stale storage: both parts must be overwritten
    (df0 if (rk + len(coeffs)) % 2 else df).getRho(f, rho)          # warm-up call through one of the two finders
    if perturbed:
        (df if rk % 2 else df0).getPerturbedRho(f, rho)
    else:
        (df if rk % 2 else df0).getRho(f, rho)
    rl = h3.getLayout("v_parallel_2d")        # (r, z, theta)
    r = rho.getAllData()
    for i, gr in enumerate(range(rl.starts[0], rl.ends[0])):
        for j, gz in enumerate(range(rl.starts[1], rl.ends[1])):
            for k in range(shape[1]):
                res.append(((gr, k, gz), complex(r[i, j, k])))
    out[rk] = res


def equil_job(comm, shape, nprocs, cfile_consts, out):
    from pygyro.model.grid import Grid
    from pygyro.model.layout import getLayoutHandler
    from pygyro.poisson.poisson_solver import DensityFinder
    from pygyro.initialisation import initialiser_funcs as init
    from pygyro.initialisation.constants import Constants
    from pygyro import splines as spl
    rk = comm.Get_rank()
    c = general_constants()
    nv = shape[3]
    brk = np.linspace(c.vMin, c.vMax, nv - 2)
    vb = spl.BSplines(spl.make_knots(brk, 3, False), 3, False, True)
    vg = vb.greville
    eta = [np.linspace(c.rMin, c.rMax, shape[0]), np.arange(shape[1], dtype=float), np.arange(shape[2], dtype=float), vg]
    h4 = getLayoutHandler(comm, STD, list(nprocs), eta)
    h3 = getLayoutHandler(comm, {"v_parallel_2d": [0, 2, 1], "mode_solve": [1, 2, 0]}, list(nprocs), eta[:3])
    f = Grid(eta, [None] * 4, h4, "v_parallel", comm)
    rho = Grid(eta[:3], [None] * 3, h3, "v_parallel_2d", comm, dtype=np.complex128)
    feq = feq_table(eta[0], eta[3], c)
    lay = h4.getLayout("v_parallel")
    data = f.getAllData()
    for i, gr in enumerate(range(lay.starts[0], lay.ends[0])):
        data[i, :, :, :] = feq[gr, :][None, None, :]
    finder = DensityFinder(6, vb, eta, c)
    finder.getPerturbedRho(f, rho)
    worst = float(np.max(np.abs(rho.getAllData()))) if rho.getAllData().size else 0.0
    if nprocs[0] != nprocs[1]:
        # the SAME finder on a second pair of grids that is decomposed the other way round (other local radii on this rank)
        g4 = getLayoutHandler(comm, STD, list(nprocs)[::-1], eta)
        g3 = getLayoutHandler(comm, {"v_parallel_2d": [0, 2, 1], "mode_solve": [1, 2, 0]}, list(nprocs)[::-1], eta[:3])
        f2 = Grid(eta, [None] * 4, g4, "v_parallel", comm)
        rho2 = Grid(eta[:3], [None] * 3, g3, "v_parallel_2d", comm, dtype=np.complex128)
        lay2 = g4.getLayout("v_parallel")
        for i, gr in enumerate(range(lay2.starts[0], lay2.ends[0])):
            f2.getAllData()[i, :, :, :] = feq[gr, :][None, None, :]
        finder.getPerturbedRho(f2, rho2)
        if rho2.getAllData().size:
            worst = max(worst, float(np.max(np.abs(rho2.getAllData()))))
    out[rk] = worst


def run(ctx):
    from mpi4py import MPI
    from pygyro.poisson import poisson_tools as pt
    rng = random.Random(ctx.seed)
    quick = ctx.quick()
    ctx.rule = ("v spaces = clamped tables (degree 1-5 general path, uniform-cubic fast path) printed by BSplinesMC; per space: process "
                "grids x real/complex density storage x plain/perturbed density with integer coefficient profiles at every (r,theta,z); "
                "kernel-level calls with integer arrays; equilibrium on every process grid; distinct = (space, process grid, dtype, "
                "perturbed, point); non-trivial = non-zero coefficient vector")
    spaces = [s for s in so.run_box(ctx, 5, 4 if quick else 6, 6, kinds=("clamped", "cu")) if s.ncells >= 2]
    ctx.exhaustive = True
    rng.shuffle(spaces)
    keep, seen = [], {}
    for s in spaces:
        k = (s.p, s.kind, s.uniform)
        if seen.get(k, 0) < (2 if quick else 8):
            seen[k] = seen.get(k, 0) + 1
            keep.append(s)
    events, meta = [], []
    pgs = [[1, 1], [2, 1], [1, 2], [2, 2], [3, 2], [2, 3], [4, 1], [3, 1]]
    for si, sp in enumerate(keep):
        L = 1
        for x in sp.ints:
            L = lcm(L, x.denominator)
        if L > 200000:
            continue
        IL = [int(x * L) for x in sp.ints]
        a, h = (0.5, 0.25) if si % 2 else (-3.0, 2.0)
        shape = [rng.choice([5, 7]), 3, 5, 0]        # radial extents whose uneven blocks are not all at the end (5 over 3, 7 over 4 ...)
        coeffs = [[[[rng.randint(-6, 6) for _ in range(sp.nb)] for _ in range(shape[2])] for _ in range(shape[1])] for _ in range(shape[0])]
        for nprocs in (pgs[si % len(pgs)], pgs[(si + 3) % len(pgs)]):
            for dtype, perturbed in ((float, False), (np.complex128, True)) if (si % 2 == 0) else ((np.complex128, False), (float, True)):
                n = int(np.prod(nprocs))
                out = [None] * n
                res = MPI.run(n, density_job, policy="random", seed=si, args=(shape, nprocs, sp, a, h, coeffs, dtype, perturbed, out))
                m0 = {"space": sp.key(), "map": [a, h], "nprocs": nprocs, "dtype": np.dtype(dtype).name, "perturbed": perturbed}
                if not res.ok:
                    events.append({"k": "rho", "IL": IL, "c": [0] * sp.nb, "got": 0, "exact": False, "ok": False, "im": True, "err": res.describe()})
                    meta.append(dict(m0, what="job failed"))
                    continue
                for rk in range(n):
                    for (pt_, val) in out[rk]:
                        gr, k, gz = pt_
                        y = val.real * L / h
                        events.append({"k": "rho", "IL": IL, "c": coeffs[gr][k][gz], "got": to_int(y),
                                       "exact": bool(abs(y - round(y)) < 1e-4 * max(1.0, abs(y) * 1e-4)), "ok": True, "im": bool(abs(val.imag) < 1e-12)})
                        meta.append(dict(m0, point=pt_, rank=rk))
        c1 = [rng.randint(-9, 9) for _ in range(sp.nb)]
        c2 = [rng.randint(-9, 9) for _ in range(sp.nb)]
        events.append({"k": "lin", "IL": IL, "c1": c1, "c2": c2, "a": rng.randint(-5, 5)})
        meta.append({"space": sp.key(), "what": "linearity of the exact functional"})
    # kernels with integer arrays (exact arithmetic in floats)
    for t in range(20 if quick else 200):
        n, m, p, nc = rng.randint(1, 4), rng.randint(1, 4), rng.randint(1, 4), rng.randint(2, 7)
        q = np.array([float(rng.randint(1, 5)) for _ in range(nc)])
        g = np.array([[[[float(rng.randint(-9, 9)) for _ in range(nc)] for _ in range(p)] for _ in range(m)] for _ in range(n)])
        fe = np.array([[float(rng.randint(-9, 9)) for _ in range(nc)] for _ in range(n)])
        for dtype in (float, np.complex128):
            r1 = np.full((n, m, p), -5.0, dtype=dtype)
            r2 = np.full((n, m, p), -5.0, dtype=dtype)
            pt.get_rho(r1, g, q)
            pt.get_perturbed_rho(r2, fe, g, q)
            for i in range(n):
                events.append({"k": "rho", "IL": [int(x) for x in q], "c": [int(x) for x in g[i, m - 1, 0, :]], "got": to_int(r1[i, m - 1, 0].real),
                               "exact": True, "ok": True, "im": bool(np.all(np.imag(r1) == 0))})
                meta.append({"what": "kernel get_rho", "dtype": np.dtype(dtype).name, "case": t, "i": i})
                events.append({"k": "rho", "IL": [int(x) for x in q], "c": [int(x) for x in (g[i, 0, p - 1, :] - fe[i, :])], "got": to_int(r2[i, 0, p - 1].real),
                               "exact": True, "ok": True, "im": bool(np.all(np.imag(r2) == 0))})
                meta.append({"what": "kernel get_perturbed_rho (row i of the equilibrium table)", "dtype": np.dtype(dtype).name, "case": t, "i": i})
    # equilibrium
    for nprocs in pgs:
        n = int(np.prod(nprocs))
        out = [None] * n
        res = MPI.run(n, equil_job, policy="random", seed=1, args=([7, 4, 6, 12], nprocs, None, out))
        events.append({"k": "equil", "ok": bool(res.ok), "zero": bool(res.ok and all(v <= 1e-13 for v in out)), "err": res.describe()})
        meta.append({"what": "perturbed density of the equilibrium", "nprocs": nprocs, "max_abs": out})
    # the driver integrates along v: the DensityFinder it builds sits on the v spline of the distribution function (extent vMin..vMax,
    # as many basis functions as v points) - on a grid whose four extents all differ
    import os
    import shutil
    import tempfile
    from harness import scenarios
    from harness.checks.c05 import drv as drv05
    wk = tempfile.mkdtemp(prefix="c16d_")
    try:
        npts_d = [6, 8, 9, 7]
        cfd = scenarios.write_constants(os.path.join(wk, "c.json"), npts=npts_d, eps=0.05)
        od = drv05({"work": os.path.join(wk, "w"), "cfile": cfd, "S": 5, "nprocs": [1, 1], "tEnd": 0, "folder": "F", "policy": "asc", "seed": 0, "eager": False})
        vmax = float(scenarios.CONSTANTS["vMax"])
        good = bool(od["ok"] and od.get("density_splines")) and all(
            abs(lo + vmax) < 1e-12 and abs(hi - vmax) < 1e-12 and nb == npts_d[3] and not per for lo, hi, nb, per, _ in od["density_splines"])
        ctx.count(("driver-density-finder-on-v-spline",))
        if not good:
            ctx.violation({"kind": "driver-density-finder", "perturbed": True}, "the driver builds its DensityFinder on spline(s) %s; the v spline spans [%g, %g] with %d basis functions (%s)" % (
                od.get("density_splines"), -vmax, vmax, npts_d[3], od["fault"][:200]), {"npts": npts_d})
    finally:
        shutil.rmtree(wk, ignore_errors=True)
    rej, _ = ctx.validate_trace("C16Trace", events, what="densities recorded from the real kernels / DensityFinder (%d)" % len(events))
    for j, (e, m) in enumerate(zip(events, meta), 1):
        triv = e["k"] == "rho" and not any(e["c"])
        ctx.count(None if triv else (str(m.get("space")), str(m.get("nprocs")), m.get("dtype"), m.get("perturbed"), str(m.get("point")), m.get("what"), m.get("case"), m.get("i")))
        if j in rej:
            ctx.violation({"kind": e["k"], "clause": rej[j][0], "perturbed": bool(m.get("perturbed", "perturbed" in str(m.get("what", "")))),
                           "multi_process": bool(int(np.prod(m.get("nprocs", [1]))) > 1)},
                          "%s rejected by C16Trace clauses %s: %s" % (m, rej[j], {k: v for k, v in e.items() if k != "id"}), {"event": e, "meta": m})
    ctx.extra["v_spaces"] = len(keep)
    ctx.sample({"meta": meta[0], "event": events[0]})
    ctx.sample({"meta": meta[-1], "event": events[-1]})
