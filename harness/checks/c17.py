"""C17 - diagnostics and global reductions equal serial quadrature of the global field.

Spec: Reductions (integer-scaled serial trapezoid/rectangle quadrature of the global field, volume factor, slice min/max,
time-slot rule), C17Trace.  The real norm / energy classes, DiagnosticCollector and Grid.getMin/getMax run on the simulated
ranks with integer-valued coordinates and fields, so results are exact and compared for equality.
"""
import random

import numpy as np

from harness.core import Machinery
from harness.core import to_int as safe_int
from harness import simlayout as sl
from harness.scenarios import STD

LEVEL = "model_checking"
GROUPS3 = [{"v_parallel_2d": [0, 2, 1], "mode_solve": [1, 2, 0]}, {"v_parallel_1d": [0, 2, 1]}, {"poloidal": [2, 1, 0]}]


def grids(rng, shape):
    def mono(n, lo):
        x = [lo]
        for _ in range(n - 1):
            x.append(x[-1] + rng.randint(1, 3))
        return x
    r = mono(shape[0], rng.randint(1, 3))
    q = list(range(shape[1]))
    z = list(range(shape[2]))
    out = [r, q, z]
    if len(shape) == 4:
        out.append(mono(shape[3], -rng.randint(2, 6)))
    return out


def field(shape, kind, dtype):
    t = np.arange(int(np.prod(shape)), dtype=np.int64).reshape(shape)
    if kind == "one":
        re, im = np.ones(shape), np.zeros(shape)
    elif kind == "ramp":        # the linear index itself: local minima and maxima differ from rank to rank
        re, im = t.astype(float), np.zeros(shape)
    else:
        re, im = (t % 7 - 3).astype(float), (t % 5 - 2).astype(float)
    return (re + 1j * im) if dtype is complex else re


def to_int(x, scale):
    y = float(x) * scale
    if not np.isfinite(y) or abs(y) >= 2e9:
        return safe_int(y), False            # non-finite / huge results of the code: reported as inexact, never a crash of the harness
    r = round(y)
    return int(r), bool(abs(y - r) <= 1e-9 * max(1.0, abs(y)))


def diag_job(comm, shape, nprocs, eta_i, kind, dtype, out):
    """4-D: every diagnostic class in every standard layout; Grid.getMin/getMax at several roots."""
    from pygyro.model.grid import Grid
    from pygyro.model.layout import getLayoutHandler
    from pygyro.diagnostics.norms import l2, l1, nParticles
    from pygyro.diagnostics.energy import KineticEnergy
    rk = comm.Get_rank()
    eta = [np.array(x, dtype=float) for x in eta_i]
    h = getLayoutHandler(comm, STD, list(nprocs), eta)
    F = field(shape, kind, dtype)
    for name in STD:
        lay = h.getLayout(name)
        g = Grid(eta, [None] * 4, h, name, comm, dtype=dtype)
        g.getAllData()[:] = sl.local_block(F, lay)
        vals = {"l2": l2(eta, lay).l2NormSquared(g), "l1": l1(eta, lay).l1Norm(g),
                "npart": nParticles(eta, lay).getN(g), "ke": KineticEnergy(eta, lay).getKE(g)}
        out[rk].append(("diag", name, vals))
        size = comm.Get_size()
        for root in sorted({0, size - 1}):
            for fix in ([], [(0, shape[0] - 1)], [(1, 0)], [(2, shape[2] // 2)], [(3, 0)], [(0, 0), (3, shape[3] - 1)]):
                if fix:
                    ax = [a for a, _ in fix] if len(fix) > 1 else fix[0][0]
                    fv = [b for _, b in fix] if len(fix) > 1 else fix[0][1]
                    mn, mx = g.getMin(root, ax, fv), g.getMax(root, ax, fv)
                else:
                    mn, mx = g.getMin(root), g.getMax(root)
                if rk == root:
                    out[rk].append(("minmax", name, root, fix, float(mn), float(mx)))


def minmax_history_job(comm, shape, nprocs, eta_i, out):
    """getMin / getMax on ONE grid object across layout changes, save and restore: every report is that of the global field, whatever
    the object was asked before and in whatever layout (a slice request repeated after restoreGridValues in particular)."""
    from pygyro.model.grid import Grid
    from pygyro.model.layout import getLayoutHandler
    rk = comm.Get_rank()
    eta = [np.array(x, dtype=float) for x in eta_i]
    h = getLayoutHandler(comm, STD, list(nprocs), eta)
    g = Grid(eta, [None] * 4, h, "flux_surface", comm, allocateSaveMemory=True)
    g.getAllData()[:] = sl.local_block(field(shape, "ramp", float), h.getLayout("flux_surface"))
    fixes = ([(0, shape[0] - 1)], [(1, 0)], [(2, shape[2] // 2)], [(3, 0)], [(0, 0), (3, shape[3] - 1)], [])
    root = comm.Get_size() - 1

    def report(stage, order=1):
        for fix in fixes[::order]:
            if fix:
                ax = [a for a, _ in fix] if len(fix) > 1 else fix[0][0]
                fv = [b for _, b in fix] if len(fix) > 1 else fix[0][1]
                mn, mx = g.getMin(root, ax, fv), g.getMax(root, ax, fv)
            else:
                mn, mx = g.getMin(root), g.getMax(root)
            if rk == root:
                out[rk].append(("minmax", stage, root, fix, float(mn), float(mx)))
    import warnings
    warnings.simplefilter("ignore")
    report("flux_surface")
    g.saveGridValues()
    g.setLayout("poloidal")
    report("poloidal while a save is held")
    g.restoreGridValues()
    report("after restoreGridValues (flux_surface)", -1)      # the request made last before the restore comes first after it
    g.setLayout("v_parallel")
    report("v_parallel after restore")
    g.saveGridValues()
    g.setLayout("flux_surface")
    g.freeGridSave()
    report("flux_surface after save / setLayout / free", -1)


def phi_job(comm, shape, nprocs, eta_i, kind, out):
    """3-D complex potential on the driver's swapper: l2 in every layout incl. the replicated ones."""
    from pygyro.model.grid import Grid
    from pygyro.model.layout import LayoutSwapper
    from pygyro.diagnostics.norms import l2
    rk = comm.Get_rank()
    eta = [np.array(x, dtype=float) for x in eta_i]
    sw = LayoutSwapper(comm, GROUPS3, [list(nprocs), nprocs[0], nprocs[1]], eta, "mode_solve")
    F = field(shape, kind, complex)
    for name in ("mode_solve", "v_parallel_2d", "v_parallel_1d", "poloidal"):
        lay = sw.getLayout(name)
        g = Grid(eta, [None] * 3, sw, name, comm, dtype=np.complex128)
        g.getAllData()[:] = sl.local_block(F, lay)
        out[rk].append(("diag", name, {"l2": l2(eta, lay).l2NormSquared(g)}, tuple(int(x) for x in lay.ranks)))


def collector_job(comm, shape, nprocs, eta_i, S, steps, tfloat, out, kind="tok"):
    from pygyro.model.grid import Grid
    from pygyro.model.layout import LayoutSwapper, getLayoutHandler
    from pygyro.diagnostics.diagnostic_collector import DiagnosticCollector
    rk = comm.Get_rank()
    eta = [np.array(x, dtype=float) for x in eta_i]
    h = getLayoutHandler(comm, {"flux_surface": STD["flux_surface"], "v_parallel": STD["v_parallel"], "poloidal": STD["poloidal"]},
                         list(nprocs), eta)
    f = Grid(eta, [None] * 4, h, "v_parallel", comm)
    f.getAllData()[:] = sl.local_block(field(shape, kind, float), h.getLayout("v_parallel"))
    sw = LayoutSwapper(comm, GROUPS3, [list(nprocs), nprocs[0], nprocs[1]], eta[:3], "v_parallel_2d")
    phi = Grid(eta[:3], [None] * 3, sw, "v_parallel_2d", comm, dtype=np.complex128)
    phi.getAllData()[:] = sl.local_block(field(shape[:3], "tok", complex), sw.getLayout("v_parallel_2d"))
    dt = 2.0 if tfloat else 2
    d = DiagnosticCollector(comm, S, dt, f, phi)
    d.diagnostics[0, :] = -1.0
    for k in steps:
        t = k * dt
        before = d.diagnostics[0, :].copy()
        try:
            d.collect(f, phi, t)
            changed = [int(i) for i in np.nonzero(d.diagnostics[0, :] != before)[0]]
            ok = bool(all(d.diagnostics[0, i] == t for i in changed))
            out[rk].append(("slot", k, S, changed, ok, ""))
        except Exception as ex:
            out[rk].append(("slot", k, S, [], False, "%s: %s" % (type(ex).__name__, ex)))
            return
    d.reduce()
    for again in (False, True):
        if again:
            d.reduce()              # nothing was collected in between: reducing again must report the same quantities
        if rk != 0:
            continue
        if True:
          last = steps[-1] % S
          # the line the driver prints for that slot carries the same eight quantities, in the documented column order
          cols = [float(x) for x in d.getLine(last).split()]
          want = [float(d.diagnostics[0, last]), float(d.l2PhiResult[last]), float(d.l2GridResult[last]), float(d.l1Result[last]),
                  float(d.nPartResult[last]), float(d.min_val[last]), float(d.max_val[last]), float(d.KE_val[last])]
          line_ok = len(cols) == 8 and all(abs(a - b) <= 1e-9 * max(1.0, abs(b)) for a, b in zip(cols, want))
          out[rk].append(("line", line_ok, cols, want))
          out[rk].append(("reduce", {"l2phi": float(d.l2PhiResult[last]) ** 2, "l2": float(d.l2GridResult[last]) ** 2,
                                     "l1": float(d.l1Result[last]), "npart": float(d.nPartResult[last]), "ke": float(d.KE_val[last]),
                                     "mn": float(d.min_val[last]), "mx": float(d.max_val[last])}))


def plotrank_job(comm, shape, nprocs, eta_i, out):
    """A plot-only rank (empty block) takes part in getMin/getMax with the neutral element."""
    from pygyro.model.grid import Grid
    from pygyro.model.layout import getLayoutHandler
    rk = comm.Get_rank()
    eta = [np.array(x, dtype=float) for x in eta_i]
    lc = comm.Split(rk == 0, rk)
    if rk == 0:
        h = getLayoutHandler(lc, STD, [1, 1], [[], [], [], []])
    else:
        h = getLayoutHandler(lc, STD, list(nprocs), eta)
    g = Grid(eta, [None] * 4, h, "v_parallel", comm)
    if rk != 0:
        g.getAllData()[:] = sl.local_block(field(shape, "ramp", float), h.getLayout("v_parallel"))
    for fix in ([], [(0, 1)], [(2, 0)]):
        if fix:
            mn, mx = g.getMin(0, fix[0][0], fix[0][1]), g.getMax(0, fix[0][0], fix[0][1])
        else:
            mn, mx = g.getMin(0), g.getMax(0)
        if rk == 0:
            out[rk].append(("minmax", "v_parallel", 0, fix, float(mn), float(mx)))


SCALE = {"l2": 4, "l1": 4, "npart": 4, "ke": 8}


def run(ctx):
    from mpi4py import MPI
    rng = random.Random(ctx.seed)
    quick = ctx.quick()
    ctx.rule = ("configurations = (shape, integer non-uniform r and v grids, process grid, field kind, dtype); every diagnostic class in "
                "every layout (4-D standard layouts; 3-D swapper layouts incl. the replicated ones), getMin/getMax whole grid and fixed-index "
                "slices at two roots and with a plot-only rank, DiagnosticCollector slots for integer and float times and its reduce(); "
                "random schedules incl. eager completion (reduction order = arrival order); distinct = (configuration, quantity, layout, "
                "arguments); non-trivial = more than one process")
    events, meta = [], []
    pgs = [[1, 1], [2, 1], [1, 2], [2, 2], [1, 3], [3, 1], [2, 3], [3, 2]]
    ncfg = 16 if quick else 80
    for ci in range(ncfg):
        nprocs = pgs[ci % len(pgs)]
        shape = [rng.randint(max(3, nprocs[0]), 6), rng.randint(3, 6), rng.randint(max(3, nprocs[1]), 6), rng.randint(max(3, nprocs[0], nprocs[1]), 6)]
        eta = grids(rng, shape)
        n = int(np.prod(nprocs))
        sched = dict(policy=rng.choice(["asc", "desc", "random", "rr"]), seed=rng.randint(0, 10 ** 6), eager=rng.random() < 0.5)
        for kind, dtype in (("tok", float), ("tok", complex), ("one", float), ("ramp", float)):
            out = [[] for _ in range(n)]
            res = MPI.run(n, diag_job, args=(shape, nprocs, eta, kind, dtype, out), **sched)
            m0 = {"shape": shape, "nprocs": nprocs, "eta": eta, "field": kind, "dtype": np.dtype(dtype).name, "schedule": sched}
            if not res.ok:
                events.append({"k": "diag", "q": "l2", "kind": kind, "cplx": dtype is complex, "sh": shape, "r": eta[0], "v": eta[3], "total": 0, "exact": False, "ok": False, "err": res.describe()})
                meta.append(dict(m0, what="diag_job"))
                continue
            for name in (STD if kind != "ramp" else ()):          # (the ramp field serves the extrema only: its sums exceed TLC's integers)
                for q in ("l2", "l1", "npart", "ke"):
                    tot = sum(v[2][q] for o in out for v in o if v[0] == "diag" and v[1] == name)
                    ti, ex = to_int(tot, SCALE[q])
                    if kind == "one" and q != "ke":
                        events.append({"k": "volume", "q": q, "sh": shape, "r": eta[0], "v": eta[3], "total": ti, "exact": ex, "ok": True})
                    else:
                        events.append({"k": "diag", "q": q, "kind": kind, "cplx": dtype is complex, "sh": shape, "r": eta[0], "v": eta[3], "total": ti, "exact": ex, "ok": True})
                    meta.append(dict(m0, what=q, layout=name))
            if kind == "ramp":       # every slice of the ramp has its own minimum and maximum, and every rank its own local extrema
                for o in out:
                    for v in o:
                        if v[0] == "minmax":
                            lay = STD[v[1]]
                            events.append({"k": "minmax", "kind": kind, "sh": shape, "fix": [[a + 1, b] for a, b in v[3]],
                                           "mn": int(round(v[4])) if np.isfinite(v[4]) else 0, "mx": int(round(v[5])) if np.isfinite(v[5]) else 0,
                                           "ok": bool(np.isfinite(v[4]) and np.isfinite(v[5]))})
                            meta.append(dict(m0, what="minmax", layout=v[1], root=v[2], fix=v[3]))
        # min / max reports of one grid object through layout changes, save and restore
        out = [[] for _ in range(n)]
        res = MPI.run(n, minmax_history_job, policy=sched["policy"], seed=sched["seed"], eager=sched["eager"], args=(shape, nprocs, eta, out))
        if not res.ok:
            events.append({"k": "minmax", "kind": "ramp", "sh": shape, "fix": [], "mn": 0, "mx": 0, "ok": False, "err": res.describe()})
            meta.append(dict(m0, what="minmax-history"))
        for o in out:
            for v in o:
                events.append({"k": "minmax", "kind": "ramp", "sh": shape, "fix": [[a + 1, b] for a, b in v[3]],
                               "mn": int(round(v[4])) if np.isfinite(v[4]) else 0, "mx": int(round(v[5])) if np.isfinite(v[5]) else 0,
                               "ok": bool(np.isfinite(v[4]) and np.isfinite(v[5]))})
                meta.append(dict(m0, what="minmax-history", stage=v[1], root=v[2], fix=v[3]))
        # 3-D potential on the swapper (replicated layouts: one replica set)
        out = [[] for _ in range(n)]
        res = MPI.run(n, phi_job, args=(shape[:3], nprocs, eta[:3], "tok", out), **sched)
        m0 = {"shape": shape[:3], "nprocs": nprocs, "eta": eta[:3], "field": "tok", "dtype": "complex128", "schedule": sched}
        for name in ("mode_solve", "v_parallel_2d", "v_parallel_1d", "poloidal"):
            seen, tot = set(), 0.0
            for o in out:
                for v in o:
                    if v[1] == name and v[3] not in seen:
                        seen.add(v[3])
                        tot += v[2]["l2"]
            ti, ex = to_int(tot, 2)
            events.append({"k": "diag", "q": "l2", "kind": "tok", "cplx": True, "sh": shape[:3], "r": eta[0], "v": [0, 1], "total": ti, "exact": ex,
                           "ok": bool(res.ok), "err": res.describe()})
            meta.append(dict(m0, what="l2-phi", layout=name, replica_sets=len(seen)))
        # collector: slots and reduce
        for tfloat in (False, True):
            S = rng.randint(1, 4)
            steps = list(range(rng.randint(0, 3), rng.randint(4, 7)))
            out = [[] for _ in range(n)]
            res = MPI.run(n, collector_job, args=(shape, nprocs, eta, S, steps, tfloat, out), **sched)
            m0 = {"shape": shape, "nprocs": nprocs, "eta": eta, "S": S, "steps": steps, "float_times": tfloat, "schedule": sched}
            for rk, o in enumerate(out):
                for v in o:
                    if v[0] == "slot":
                        events.append({"k": "slot", "step": v[1], "S": v[2], "written": v[3], "ok": v[4], "err": v[5]})
                        meta.append(dict(m0, what="slot", rank=rk))
                    elif v[0] == "line":
                        events.append({"k": "line", "ok": bool(v[1]), "err": "" if v[1] else "printed line %s, reduced quantities %s" % (v[2], v[3])})
                        meta.append(dict(m0, what="printed diagnostics line", rank=rk))
                    elif v[0] == "reduce":
                        for key, q, sc, sh3 in (("l2phi", "l2", 2, True), ("l2", "l2", 4, False), ("l1", "l1", 4, False),
                                                ("npart", "npart", 4, False), ("ke", "ke", 8, False)):
                            ti, ex = to_int(v[1][key], sc)
                            if key in ("l2phi", "l2"):      # went through sqrt and back
                                ex = bool(abs(v[1][key] * sc - ti) <= 1e-7 * max(1.0, abs(ti)))
                            events.append({"k": "reduce", "q": q, "kind": "tok", "cplx": bool(sh3), "sh": shape[:3] if sh3 else shape, "r": eta[0],
                                           "v": [0, 1] if sh3 else eta[3], "total": ti, "exact": ex, "ok": True})
                            meta.append(dict(m0, what="reduce-" + key))
                        events.append({"k": "minmax", "kind": "tok", "sh": shape, "fix": [], "mn": safe_int(v[1]["mn"]),
                                       "mx": safe_int(v[1]["mx"]), "ok": True})
                        meta.append(dict(m0, what="reduce-minmax"))
            # the reduced extrema on a field whose local extrema differ from rank to rank
            out2 = [[] for _ in range(n)]
            res2 = MPI.run(n, collector_job, args=(shape, nprocs, eta, S, steps, tfloat, out2, "ramp"), **sched)
            for v in out2[0]:
                if v[0] == "reduce":
                    events.append({"k": "minmax", "kind": "ramp", "sh": shape, "fix": [], "mn": safe_int(v[1]["mn"]), "mx": safe_int(v[1]["mx"]), "ok": bool(res2.ok)})
                    meta.append(dict(m0, what="reduce-minmax on a ramp"))
            if not res.ok and not any(v[0] == "slot" and not v[4] for o in out for v in o):
                events.append({"k": "slot", "step": 0, "S": S, "written": [], "ok": False, "err": res.describe()})
                meta.append(dict(m0, what="collector_job"))
        # plot-only rank
        out = [[] for _ in range(n + 1)]
        res = MPI.run(n + 1, plotrank_job, args=(shape, nprocs, eta, out), **sched)
        for v in out[0]:
            events.append({"k": "minmax", "kind": "ramp", "sh": shape, "fix": [[a + 1, b] for a, b in v[3]], "mn": int(round(v[4])) if np.isfinite(v[4]) else 0,
                           "mx": int(round(v[5])) if np.isfinite(v[5]) else 0, "ok": bool(res.ok and np.isfinite(v[4]) and np.isfinite(v[5]))})
            meta.append({"shape": shape, "nprocs": nprocs, "what": "minmax-with-plot-only-rank", "fix": v[3], "schedule": sched})
        if not res.ok:
            events.append({"k": "minmax", "kind": "ramp", "sh": shape, "fix": [], "mn": 0, "mx": 0, "ok": False, "err": res.describe()})
            meta.append({"shape": shape, "nprocs": nprocs, "what": "minmax-with-plot-only-rank", "schedule": sched})
    rej, _ = ctx.validate_trace("C17Trace", events, what="diagnostics / reductions recorded from the real classes (%d)" % len(events))
    for j, (e, m) in enumerate(zip(events, meta), 1):
        ctx.count(None if int(np.prod(m["nprocs"])) == 1 else (str(m.get("shape")), str(m.get("nprocs")), str(m.get("eta")), m.get("what"), m.get("layout"),
                  str(m.get("fix")), str(m.get("root")), m.get("field"), m.get("dtype"), str(m.get("steps")), m.get("rank"), e.get("step"), m.get("float_times")))
        if j in rej:
            sig = {"kind": e["k"], "clause": rej[j][0], "what": m.get("what")}
            if e["k"] == "slot":
                sig["float_times"] = bool(m.get("float_times"))
                sig["error"] = e.get("err", "").split(":")[0]
            ctx.violation(sig, "%s rejected by C17Trace clauses %s; event %s %s" % (
                {k: v for k, v in m.items() if k != "eta"}, rej[j], {k: v for k, v in e.items() if k not in ("r", "v", "sh")}, e.get("err", "")),
                {"event": e, "meta": m})
    ctx.sample({"meta": meta[0], "event": events[0]})
    ctx.sample({"meta": meta[-1], "event": events[-1]})
    ctx.extra["events_by_kind"] = {k: sum(1 for e in events if e["k"] == k) for k in ("diag", "volume", "minmax", "slot", "reduce")}
