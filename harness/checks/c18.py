"""C18 - checkpoints round-trip exactly and a restarted run continues the original one.

Spec: Restart (driver bookkeeping as a state transformer: set-up/resume, loop iteration, window flush, final flush),
RestartMC (every split of K steps into runs, every save interval), C18Trace.  Conformance: the real writeH5Dataset /
loadFromFile / setupFromFile through the collective mpio emulation with token fields (all layouts, process counts at save x
load), hand-made checkpoint directories, the constants printer/parser under key permutations, and sequences of real
fullSimulation.main() runs compared with the unsplit run.
"""
import concurrent.futures
import itertools
import json
import os
import random
import shutil
import subprocess
import sys
import tempfile

import numpy as np

from harness.core import Machinery, VERIF
from harness import simlayout as sl
from harness import scenarios
from harness.scenarios import STD

FS, FU = "split_2.5", "unsplit.v2_7"      # output folders of the driver runs: legal names with dots / underscores / digits
LEVEL = "model_checking"
NPTS = [6, 8, 8, 8]


# ---------------------------------------------------------------- checkpoint round trip (token fields)
def save_job(comm, shape, nprocs, layout, folder, time, ver, dtype):
    from pygyro.model.grid import Grid
    h, eta = sl.handler_job(comm, shape, nprocs, STD)
    g = Grid(eta, [None] * 4, h, layout, comm, dtype=dtype)
    g.getAllData()[:] = sl.local_block(sl.tokens(shape, dtype, ver), h.getLayout(layout))
    g.writeH5Dataset(folder, time)
    return True


def load_job(comm, shape, nprocs, layout, folder, time, dtype):
    from pygyro.model.grid import Grid
    h, eta = sl.handler_job(comm, shape, nprocs, STD)
    g = Grid(eta, [None] * 4, h, layout, comm, dtype=dtype)
    g.getAllData()[:] = sl.sentinel(dtype)
    g.loadFromFile(folder, time)
    lay = h.getLayout(layout)
    first = sl.decode(g.getAllData()).tolist()
    # the loaded field is the grid's field from then on: a layout change and back shows the same blocks
    with sl.warnings.catch_warnings():
        sl.warnings.simplefilter("ignore")
        other = [n for n in STD if n != layout][0]
        g.setLayout(other)
        g.setLayout(layout)
    again = sl.decode(g.getAllData()).tolist()
    return {"block": first if first == again else [-3] * len(first), "rc": [int(x) for x in lay.ranks], "P": [int(x) for x in lay.nprocs]}


def setup_job(comm, folder, kw):
    from pygyro.initialisation.setups import setupFromFile
    with sl.warnings.catch_warnings():
        sl.warnings.simplefilter("ignore")
        g, c, t = setupFromFile(folder, comm=comm, **kw)
    lay = g.getLayout(g.currentLayout)
    return {"block": sl.decode(g.getAllData()).tolist(), "rc": [int(x) for x in lay.ranks], "P": [int(x) for x in lay.nprocs],
            "t": t if isinstance(t, (int, float)) else float(t), "layout": g.currentLayout}


def vbase(v):
    return v * 1000003


def part_roundtrip(ctx, rng, work, events, meta, quick):
    from mpi4py import MPI
    from harness import h5emu
    import h5py
    h5emu.install()
    shape = [4, 5, 6, 7]
    grids_ = [[1, 1], [2, 1], [1, 2], [2, 2], [1, 3], [3, 1], [2, 3]]
    combos = [(a, b) for a in grids_ for b in grids_]
    rng.shuffle(combos)
    combos = combos[:10 if quick else len(combos)]
    i = 0
    for lay in STD:
        for dtype in (float, complex):
            for (gs, gl) in combos[:4 if quick else len(combos)]:
                i += 1
                folder = os.path.join(work, "rt%d" % i)
                os.makedirs(folder)
                ver = i % 7
                time = rng.choice([0, 2, 14, 100, 123456])
                sched = dict(policy=rng.choice(["asc", "desc", "random"]), seed=i, eager=False)
                rs = MPI.run(int(np.prod(gs)), save_job, args=(shape, gs, lay, folder, time, ver, dtype), **sched)
                m0 = {"part": "roundtrip", "shape": shape, "layout": lay, "save_grid": gs, "load_grid": gl, "dtype": np.dtype(dtype).name, "time": time}
                do = [d + 1 for d in STD[lay]]
                if not rs.ok:
                    events.append({"k": "load", "sh": shape, "do": do, "P": [1] * 4, "rc": [0] * 4, "block": [], "ok": False, "ver": ver, "err": rs.describe()})
                    meta.append(dict(m0, what="write"))
                    continue
                fn = os.path.join(folder, "grid_%06d.h5" % time)
                with h5emu._real_File(fn, "r") as f:
                    d = f["dset"][...]
                    attr = [int(x) + 1 for x in f["dset"].attrs["Layout"]]
                events.append({"k": "dataset", "sh": shape, "do": do, "data": sl.decode(d).tolist(), "attr": attr, "ver": ver})
                meta.append(dict(m0, what="dataset"))
                rl = MPI.run(int(np.prod(gl)), load_job, args=(shape, gl, lay, folder, time if i % 2 else None, dtype), **sched)
                for rk in range(int(np.prod(gl))):
                    v = rl.values[rk] if rl.ok else None
                    events.append({"k": "load", "sh": shape, "do": do, "P": v["P"] if v else [1] * 4, "rc": v["rc"] if v else [0] * 4,
                                   "block": v["block"] if v else [], "ok": bool(rl.ok), "ver": ver, "err": rl.describe()})
                    meta.append(dict(m0, what="load", rank=rk))


def part_other_layout(ctx, rng, work, events, meta, quick):
    """A checkpoint loaded into a grid that is in ANOTHER layout than the recorded one (extents equal, so that shapes cannot tell the
    layouts apart): the load is either refused or yields the global field in the grid's own layout - never exchanged axes."""
    from mpi4py import MPI
    from harness import h5emu
    h5emu.install()
    shape = [6, 5, 6, 6]
    k = 0
    for lsave in STD:
        for lload in STD:
            if lload == lsave:
                continue
            for gl in ([1, 1], [2, 1]) if quick else ([1, 1], [2, 1], [2, 2]):
                k += 1
                folder = os.path.join(work, "ol%d" % k)
                os.makedirs(folder)
                ver = k % 7
                rs = MPI.run(2, save_job, args=(shape, [2, 1], lsave, folder, 4, ver, float), policy="asc", seed=k, eager=False)
                rl = MPI.run(int(np.prod(gl)), load_job, args=(shape, gl, lload, folder, 4, float), policy="asc", seed=k, eager=False) if rs.ok else None
                m0 = {"part": "roundtrip", "shape": shape, "layout": lsave, "loaded_into": lload, "save_grid": [2, 1], "load_grid": gl, "dtype": "float64", "time": 4}
                do = [d + 1 for d in STD[lload]]
                if rl is not None and not rl.ok and "AssertionError" in rl.describe():
                    ctx.count(("other-layout-refused", lsave, lload, tuple(gl)))
                    continue
                for rk in range(int(np.prod(gl))):
                    v = rl.values[rk] if (rl is not None and rl.ok) else None
                    events.append({"k": "load", "sh": shape, "do": do, "P": v["P"] if v else [1] * 4, "rc": v["rc"] if v else [0] * 4,
                                   "block": v["block"] if v else [], "ok": bool(rl is not None and rl.ok), "ver": ver,
                                   "err": (rl or rs).describe()})
                    meta.append(dict(m0, what="load into another layout", rank=rk))


def part_latest(ctx, rng, work, events, meta, quick):
    """Directories with several checkpoints of different digit counts: which one do the loaders pick?"""
    from mpi4py import MPI
    from harness import h5emu
    h5emu.install()
    cfile = scenarios.write_constants(os.path.join(work, "c_latest.json"))
    from pygyro.initialisation.constants import get_constants
    consts = get_constants(cfile)
    shape = list(NPTS)
    timesets = [[0, 2, 4], [2, 10, 100], [8, 10], [98, 100, 102], [999998, 1000000], [0, 999999, 1000002, 20], [123456, 1234567, 99]]
    if not quick:
        timesets += [[rng.randint(0, 3 * 10 ** 6) for _ in range(rng.randint(2, 5))] for _ in range(10)]
    for si, times in enumerate(timesets):
        folder = os.path.join(work, "lt%d_1.5" % si)        # folder names with dots and underscores (the time is parsed from file names)
        os.makedirs(folder)
        with open(os.path.join(folder, "initParams.json"), "w") as fh:
            print(consts, file=fh)
        lay = list(STD)[si % 3]
        for vi, t in enumerate(times):
            rs = MPI.run(2, save_job, args=(shape, [1, 2], lay, folder, t, vi + 1, float))
            if not rs.ok:
                raise Machinery("could not prepare checkpoint directory: " + rs.describe())
        m0 = {"part": "latest", "times": times, "layout": lay}
        # Grid.loadFromFile(time=None)
        rl = MPI.run(2, load_job, args=(shape, [2, 1], lay, folder, None, float))
        chosen = -1
        if rl.ok:
            b = rl.values[0]["block"]
            vi = b[0] // 1000003 if b else -1
            chosen = times[vi - 1] if 1 <= vi <= len(times) else -1
        events.append({"k": "latest", "times": times, "chosen": chosen, "ok": bool(rl.ok), "err": rl.describe()})
        meta.append(dict(m0, what="Grid.loadFromFile(time=None)"))
        # Grid.loadFromFile(time=t) for every checkpoint present: the requested one must be loaded
        for t in times:
            rl = MPI.run(2, load_job, args=(shape, [1, 2], lay, folder, t, float))
            got = -1
            if rl.ok:
                b = rl.values[0]["block"]
                vi = b[0] // 1000003 if b else -1
                got = times[vi - 1] if 1 <= vi <= len(times) else -1
            events.append({"k": "latest", "times": [t], "chosen": got, "ok": bool(rl.ok), "err": rl.describe()})
            meta.append(dict(m0, what="Grid.loadFromFile(time=%d)" % t))
        # setupFromFile: latest, and an explicitly requested time
        rl = MPI.run(3, setup_job, args=(folder, {}))
        chosen, tret = -1, -1
        if rl.ok:
            b = rl.values[0]["block"]
            vi = b[0] // 1000003 if b else -1
            chosen = times[vi - 1] if 1 <= vi <= len(times) else -1
            tret = rl.values[0]["t"]
        events.append({"k": "latest", "times": times, "chosen": chosen if chosen == tret else -2, "ok": bool(rl.ok), "err": rl.describe()})
        meta.append(dict(m0, what="setupFromFile (data version %s, returned t %s)" % (chosen, tret)))
        if rl.ok:
            for rk, v in enumerate(rl.values):
                vi = times.index(chosen) + 1 if chosen in times else 0
                events.append({"k": "load", "sh": shape, "do": [d + 1 for d in STD[lay]], "P": v["P"], "rc": v["rc"], "block": v["block"],
                               "ok": True, "ver": vi})
                meta.append(dict(m0, what="setupFromFile block", rank=rk))
        want = times[len(times) // 2]
        rl = MPI.run(2, setup_job, args=(folder, {"timepoint": want, "layout": "v_parallel"}))
        got = -1
        if rl.ok:
            b = rl.values[0]["block"]
            vi = b[0] // 1000003 if b else -1
            got = times[vi - 1] if 1 <= vi <= len(times) else -1
        events.append({"k": "latest", "times": [want], "chosen": got if (rl.ok and rl.values[0]["t"] == want) else -2, "ok": bool(rl.ok), "err": rl.describe()})
        meta.append(dict(m0, what="setupFromFile(timepoint=%d)" % want))
        if rl.ok:
            for rk, v in enumerate(rl.values):
                events.append({"k": "load", "sh": shape, "do": [d + 1 for d in STD["v_parallel"]], "P": v["P"], "rc": v["rc"], "block": v["block"],
                               "ok": True, "ver": times.index(want) + 1})
                meta.append(dict(m0, what="setupFromFile(timepoint, layout) block after layout change", rank=rk))


def const_values(c):
    out = {}
    for k in dir(c):
        v = getattr(c, k)
        if not callable(v) and k[0] != "_":
            out[k] = list(v) if isinstance(v, (list, tuple)) else v
    return out


def part_constants(ctx, rng, work, events, meta, quick):
    from pygyro.initialisation.constants import Constants, get_constants
    sources = []
    c0 = Constants()
    sources.append(("defaults printed", str(c0)))
    c1 = get_constants(scenarios.write_constants(os.path.join(work, "c_const.json")))
    sources.append(("driver constants printed", str(c1)))
    for f in sorted(os.listdir(os.path.join(os.environ.get("VERIF_REPO", "/repo"), "testSetups"))):
        sources.append(("testSetups/" + f + " (symbolic expressions)", open(os.path.join(os.environ.get("VERIF_REPO", "/repo"), "testSetups", f)).read()))
    sym = dict(scenarios.CONSTANTS)
    sym.update({"rMin": 0.3, "R0": 200.5, "kTi": 0.3, "deltaRTi": 1.3, "deltaRN0": 2.5, "CTi": 0.9,          # operands that differ from the defaults
                "rMax": "rMin+14.4", "vMax": "2*2.5", "vMin": "-vMax", "deltaR": "4.0*deltaRN0/deltaRTi", "zMax": "R0*2*pi", "kTe": "kTi",
                "CTe": "CTi", "deltaRTe": "deltaRTi", "npts": [6, 8, 8, 8]})
    sources.append(("chained symbolic expressions", json.dumps(sym)))
    # a file that gives rp itself (legal: rp is a public constant and setupCylindricalGrid accepts it as keyword)
    c2 = get_constants(scenarios.write_constants(os.path.join(work, "c_rp.json"), rp=5.5))
    sources.append(("file with explicit rp", json.dumps(dict(scenarios.CONSTANTS, rp=5.5))))
    sources.append(("file with explicit CN0 and rp", json.dumps(dict(scenarios.CONSTANTS, CN0=0.14711, rp=6.25))))
    sources.append(("file with zero-valued constants", json.dumps(dict(scenarios.CONSTANTS, eps=0.0, m=0, n=0, iotaVal=0.0, kN0=0.0, zMin=0.0))))
    nperm = 12 if quick else 120
    for name, text in sources:
        data = json.loads(text)
        keys = list(data)
        p0 = os.path.join(work, "k0.json")
        open(p0, "w").write(text)
        try:
            base = const_values(get_constants(p0))
            base_ok = True
        except Exception as ex:
            base, base_ok = {}, False
            events.append({"k": "const", "ok": False, "same": False, "err": "%s: %s" % (type(ex).__name__, ex)})
            meta.append({"part": "constants", "source": name, "order": "as written"})
            continue
        if name == "chained symbolic expressions":      # the expressions, evaluated here from the file's own literals
            import math
            env_ = {"pi": math.pi}
            pend = dict(data)
            for _ in range(len(pend) + 1):
                for k_, v_ in list(pend.items()):
                    if not isinstance(v_, str):
                        env_[k_] = v_
                        pend.pop(k_)
                    else:
                        try:
                            env_[k_] = eval(v_, {"__builtins__": {}}, dict(env_))
                            pend.pop(k_)
                        except NameError:
                            pass
            bad_ = [k_ for k_, v_ in env_.items() if k_ in base and k_ != "pi" and not isinstance(v_, list) and abs(float(base[k_]) - float(v_)) > 1e-12 * max(1.0, abs(float(v_)))]
            events.append({"k": "const", "ok": True, "same": not bad_})
            meta.append({"part": "constants", "source": name, "order": "expressions evaluated from the file's literals", "diff": bad_})
        # every literal of the file is the value of that constant (zeros included: a default must not replace a given 0)
        lit = {k: v for k, v in data.items() if isinstance(v, (int, float)) and not isinstance(v, bool) and k in base}
        bad = [k for k, v in lit.items() if base[k] != v]
        events.append({"k": "const", "ok": True, "same": not bad})
        meta.append({"part": "constants", "source": name, "order": "literals kept", "diff": bad})
        if "printed" in name:    # the printed file must reproduce the object it was printed from
            orig = const_values(c0 if name.startswith("defaults") else c1)
            events.append({"k": "const", "ok": True, "same": bool(orig == base)})
            meta.append({"part": "constants", "source": name, "order": "as written", "diff": [k for k in orig if orig[k] != base.get(k)]})
        # the same file through the set-up functions (fresh start and restart): the constants they return are those of the file
        npts = base.get("npts", [256, 512, 32, 128])          # what the parser returns for this file is what the set-up would build
        if list(npts) != list(data.get("npts", npts)):
            events.append({"k": "const", "ok": True, "same": False})
            meta.append({"part": "constants", "source": name, "order": "as written", "diff": ["npts"]})
        elif int(np.prod(npts)) <= 20000:
            import warnings
            from pygyro.initialisation.setups import setupCylindricalGrid, setupFromFile
            from harness import h5emu
            h5emu.install()
            fold = os.path.join(work, "setup_%d" % len(events))
            os.makedirs(fold)
            for how in ("setupCylindricalGrid", "setupFromFile"):
                try:
                    with warnings.catch_warnings():
                        warnings.simplefilter("ignore")
                        if how == "setupCylindricalGrid":
                            g, cc, _ = setupCylindricalGrid(layout="v_parallel", constantFile=p0)
                            g.writeH5Dataset(fold, 0)
                            open(os.path.join(fold, "initParams.json"), "w").write(text)
                        else:
                            g, cc, _ = setupFromFile(fold)
                    got = const_values(cc)
                    events.append({"k": "const", "ok": True, "same": bool(got == base)})
                    meta.append({"part": "constants", "source": name, "order": "through " + how, "diff": [k for k in base if base[k] != got.get(k)]})
                except Exception as ex:
                    events.append({"k": "const", "ok": False, "same": False, "err": "%s: %s" % (type(ex).__name__, ex)})
                    meta.append({"part": "constants", "source": name, "order": "through " + how})
        perms = [list(reversed(keys))] + [rng.sample(keys, len(keys)) for _ in range(nperm)]
        if len(keys) <= 5:
            perms = [list(p) for p in itertools.permutations(keys)]
        for pi, perm in enumerate(perms):
            p = os.path.join(work, "kp.json")
            json.dump({k: data[k] for k in perm}, open(p, "w"))
            try:
                got = const_values(get_constants(p))
                events.append({"k": "const", "ok": True, "same": bool(got == base)})
                meta.append({"part": "constants", "source": name, "order": perm, "diff": [k for k in base if base[k] != got.get(k)]})
            except Exception as ex:
                events.append({"k": "const", "ok": False, "same": False, "err": "%s: %s" % (type(ex).__name__, ex)})
                meta.append({"part": "constants", "source": name, "order": perm})


def part_setupsave(ctx, work, events, meta):
    """setupSave writes the parameter file of THESE constants into the folder it returns: new folder, existing empty folder, existing
    folder that still holds the parameter file of an earlier run."""
    from pygyro.utilities.savingTools import setupSave
    from pygyro.initialisation.constants import get_constants
    c_old = get_constants(scenarios.write_constants(os.path.join(work, "ss_old.json"), m=7, eps=0.2))
    c_new = get_constants(scenarios.write_constants(os.path.join(work, "ss_new.json"), m=3, eps=0.01, rp=5.75))
    for case in ("new folder", "existing empty folder", "existing folder with an earlier parameter file"):
        fold = os.path.join(work, "ss_" + case.replace(" ", "_"))
        try:
            if case != "new folder":
                os.makedirs(fold)
            if case.endswith("parameter file"):
                setupSave(c_old, fold)
                # the restart set-up on that folder, with an override - and again, plainly, after the file was rewritten: every call
                # reads the parameter file as it is THEN
                import warnings
                from pygyro.initialisation.setups import setupFromFile
                # (a parameter file that does not give the grid sizes back would make the restart set-up build a grid of the DEFAULT
                # sizes, 256 x 512 x 32 x 128: reported as what it is instead of being waited for)
                pre = const_values(get_constants(os.path.join(fold, "initParams.json")))
                if list(pre.get("npts", [])) != list(const_values(c_old)["npts"]):
                    want0 = const_values(c_old)
                    events.append({"k": "const", "ok": True, "same": False})
                    meta.append({"part": "constants", "source": "setupSave into " + case, "order": "parameter file written by setupSave",
                                 "diff": [k for k in want0 if want0[k] != pre.get(k)]})
                    continue
                with warnings.catch_warnings():
                    warnings.simplefilter("ignore")
                    _, c1, _ = setupFromFile(fold, dt=c_old.dt * 2, allocateSaveMemory=False, layout="v_parallel")
                    _, c2, _ = setupFromFile(fold, allocateSaveMemory=False, layout="v_parallel")
                w1 = dict(const_values(c_old), dt=c_old.dt * 2)
                for tag, cc, want in (("restart set-up with dt overridden", c1, w1), ("plain restart set-up after one with an override", c2, const_values(c_old))):
                    back = const_values(cc)
                    diff = [k for k in want if want[k] != back.get(k)]
                    events.append({"k": "const", "ok": True, "same": not diff})
                    meta.append({"part": "constants", "source": tag, "order": "setupFromFile", "diff": diff})
            ret = setupSave(c_new, fold)
            if case.endswith("parameter file") and list(const_values(get_constants(os.path.join(ret, "initParams.json"))).get("npts", [])) == list(const_values(c_new)["npts"]):
                with warnings.catch_warnings():
                    warnings.simplefilter("ignore")
                    _, c3, _ = setupFromFile(fold, allocateSaveMemory=False, layout="v_parallel")
                back, want = const_values(c3), const_values(c_new)
                diff = [k for k in want if want[k] != back.get(k)]
                events.append({"k": "const", "ok": True, "same": not diff})
                meta.append({"part": "constants", "source": "restart set-up after the parameter file was rewritten", "order": "setupFromFile", "diff": diff})
            back = const_values(get_constants(os.path.join(ret, "initParams.json")))
            want = const_values(c_new)
            diff = [k for k in want if want[k] != back.get(k)]
            events.append({"k": "const", "ok": True, "same": bool(not diff and os.path.samefile(ret, fold))})
            meta.append({"part": "constants", "source": "setupSave into " + case, "order": "parameter file written by setupSave", "diff": diff})
        except Exception as ex:
            events.append({"k": "const", "ok": False, "same": False, "err": "%s: %s" % (type(ex).__name__, ex)})
            meta.append({"part": "constants", "source": "setupSave into " + case, "order": "parameter file written by setupSave"})


def _savefolder_job(comm, c_obj, name, root, out):
    from pygyro.utilities.savingTools import setupSave
    out[comm.Get_rank()] = setupSave(c_obj, name, comm=comm, root=root)


def part_savefolder(ctx, work, events, meta, quick):
    """SaveFolder.tla (setupSave as a state machine over the working directory) replayed transition by transition: the directory is
    put into the transition's source state, the real call is made on NRanks simulated ranks with the transition's root, and the
    directory afterwards plus the name every rank returns must be the model's."""
    from mpi4py import MPI
    from pygyro.initialisation.constants import get_constants
    nsim, nranks = (2, 2) if quick else (3, 3)
    invs = ["ParamsAreCurrent", "OnlyReturnedTouched", "AutoNeverClobbers", "AutoLowestFree", "RanksAgree", "NamedReturnsItsName", "Dump"]
    cfg = "INIT Init\nNEXT Next\nCONSTANTS NSim = %d NRanks = %d\n%sCHECK_DEADLOCK FALSE\n" % (nsim, nranks, "".join("INVARIANT %s\n" % i for i in invs))
    r = ctx.tlc("SaveFolder", cfg, what="setupSave over the working directory: %d automatic names + one given name, %d ranks, every root" % (nsim, nranks), workers=1)
    if r.violated:
        raise Machinery("SaveFolder.tla violates %s: %s" % (r.violated, (r.trace_text or "")[:600]))
    files = {"a": scenarios.write_constants(os.path.join(work, "sf_a.json"), m=7, eps=0.2), "b": scenarios.write_constants(os.path.join(work, "sf_b.json"), m=3, eps=0.01, rp=5.75)}
    objs = {k: get_constants(v) for k, v in files.items()}
    ident = {k: (const_values(o)["m"], const_values(o)["eps"], const_values(o)["rp"]) for k, o in objs.items()}
    seen, cwd = set(), os.getcwd()
    base = os.path.join(work, "sf")
    try:
        for row in r.rows:
            key = json.dumps({k: row[k] for k in ("act", "c", "root", "from") if k in row} | {"name": row.get("name")}, sort_keys=True)
            if key in seen:
                continue
            seen.add(key)
            shutil.rmtree(base, ignore_errors=True)
            os.makedirs(base)
            os.chdir(base)
            for n, v in row["from"].items():
                if v != "absent":
                    os.mkdir(n)
                    os.mkdir(os.path.join(n, "results"))          # what else a simulation folder holds is not the call's business
                    if v != "empty":
                        shutil.copy(files[v], os.path.join(n, "initParams.json"))
            m = {"part": "savefolder", "transition": json.loads(key)}
            try:
                out = [None] * nranks
                rs = MPI.run(nranks, _savefolder_job, args=(objs[row["c"]], row.get("name"), int(row["root"]), out), policy="asc", seed=0)
                if not rs.ok:
                    raise RuntimeError(rs.describe()[:300])
                got, kept = {}, True
                for n in row["to"]:
                    if not os.path.isdir(n):
                        got[n] = "absent"
                    elif not os.path.exists(os.path.join(n, "initParams.json")):
                        got[n] = "empty"
                    else:
                        cv = const_values(get_constants(os.path.join(n, "initParams.json")))
                        got[n] = next((k for k, idv in ident.items() if idv == (cv["m"], cv["eps"], cv["rp"])), "other")
                    kept = kept and (row["from"][n] == "absent" or os.path.isdir(os.path.join(n, "results")))
                extra = sorted(set(os.listdir(".")) - set(row["to"]))
                events.append({"k": "folder", "ok": True, "act": row["act"], "c": row["c"], "name": row.get("name") or "", "nsim": nsim, "from": row["from"],
                               "dir": got, "ret": [str(o) for o in out], "extra": extra, "kept": bool(kept)})
                m.update(diff=sorted(n for n in row["to"] if got[n] != row["to"][n]), got={"dir": got, "ret": [str(o) for o in out]},
                         model={"dir": row["to"], "ret": row["ret"]})
                meta.append(m)
            except Exception as ex:
                events.append({"k": "folder", "ok": False, "act": row["act"], "c": row["c"], "name": row.get("name") or "", "nsim": nsim, "from": row["from"],
                               "dir": row["from"], "ret": [], "extra": [], "kept": True, "err": "%s: %s" % (type(ex).__name__, ex)})
                meta.append(m)
            finally:
                os.chdir(cwd)
    finally:
        os.chdir(cwd)
        shutil.rmtree(base, ignore_errors=True)
    ctx.extra["savefolder_transitions_replayed"] = len(seen)


def part_setup_overrides(ctx, work, events, meta):
    """ConstSetup.tla (re-application of the constants by the set-up functions, keyword overrides, rp side effect) replayed:
    every keyword subset TLC enumerates is passed to the real setupCylindricalGrid; the constants returned must be the model's."""
    import warnings
    from pygyro.initialisation.setups import setupCylindricalGrid
    NEWV = {"kTi": 0.31, "rMax": 13.0, "rMin": 0.5, "rp": 4.25}
    for custom in (True, False):
        cfg = ("INIT Init\nNEXT Next\nCONSTANTS CustomRp = %s KeepRule = TRUE\nINVARIANT NoOverrideNoChange\nINVARIANT OverridesApplied\n"
               "INVARIANT Dump\nCHECK_DEADLOCK FALSE\n" % ("TRUE" if custom else "FALSE"))
        r = ctx.tlc("ConstSetup", cfg, what="set-up re-application of constants, every keyword subset, custom rp %s" % custom, workers=1)
        if r.violated:
            raise Machinery("ConstSetup.tla violates %s: %s" % (r.violated, (r.trace_text or "")[:600]))
        over = {"rp": 5.5} if custom else {}
        p = scenarios.write_constants(os.path.join(work, "c_setup_%s.json" % custom), **over)
        base = dict(scenarios.CONSTANTS, **over)
        seen = set()
        for row in r.rows:
            kw = tuple(sorted(row["kw"]))
            if kw in seen:
                continue
            seen.add(kw)
            try:
                with warnings.catch_warnings():
                    warnings.simplefilter("ignore")
                    g, cc, _ = setupCylindricalGrid(layout="v_parallel", constantFile=p, **{k: NEWV[k] for k in kw})
                rmin = NEWV["rMin"] if row["rmin"] == "new" else base["rMin"]
                rmax = NEWV["rMax"] if row["rmax"] == "new" else base["rMax"]
                want = {"rMin": rmin, "rMax": rmax, "kTi": NEWV["kTi"] if row["kti"] == "new" else base["kTi"],
                        "rp": {"new": NEWV["rp"], "mean": 0.5 * (rmin + rmax), "rp": base.get("rp")}[row["rp"]]}
                got = {k: float(getattr(cc, k)) for k in want}
                same = all(abs(got[k] - want[k]) <= 1e-14 * max(1.0, abs(want[k])) for k in want)
                events.append({"k": "const", "ok": True, "same": bool(same)})
                meta.append({"part": "constants", "source": "set-up keywords %s, file %s rp" % (list(kw), "with" if custom else "without"),
                             "order": "through setupCylindricalGrid", "diff": [k for k in want if got[k] != want[k]], "got": got, "want": want})
            except Exception as ex:
                events.append({"k": "const", "ok": False, "same": False, "err": "%s: %s" % (type(ex).__name__, ex)})
                meta.append({"part": "constants", "source": "set-up keywords %s" % list(kw), "order": "through setupCylindricalGrid"})
        if len(seen) != 16:
            raise Machinery("ConstSetup printed %d keyword subsets, expected 16" % len(seen))


# ---------------------------------------------------------------- real driver runs
def drv(job):
    env = dict(os.environ, VERIF_REPO=os.environ.get("VERIF_REPO", "/repo"), PYTHONHASHSEED="0")
    p = subprocess.run([sys.executable, "-m", "harness.drv18"], input=json.dumps(job), capture_output=True, text=True, cwd=VERIF,
                       env=env, timeout=3600)
    if p.returncode != 0:
        raise Machinery("driver subprocess failed: " + p.stderr[-2000:])
    return json.loads(p.stdout)


def read_ck(folder, prefix, tname):
    from harness import h5emu
    with h5emu._real_File(os.path.join(folder, "%s_%s.h5" % (prefix, tname)), "r") as f:
        return f["dset"][...], [int(x) for x in f["dset"].attrs["Layout"]]


def part_driver(ctx, rng, work, events, meta, quick):
    cfile = scenarios.write_constants(os.path.join(work, "c_drv.json"))
    dt = scenarios.CONSTANTS["dt"]
    seqs = [(1, [1, 2]), (2, [1, 3]), (2, [2, 4]), (3, [2, 3, 5]), (4, [1, 1, 4]), (1, [2]), (3, [4]), (2, [3])]
    if not quick:
        seqs += [(s, st) for s in (1, 2, 3, 4, 5) for st in ([1, 2, 3], [3, 6], [2, 5], [4, 5, 6])]
    jobs = []
    for i, (S, stops) in enumerate(seqs):
        n = [1, 2, 2, 3, 4, 2, 2, 2][i % 8]
        w = os.path.join(work, "seq%d" % i)
        jobs.append((i, S, stops, n,
                     {"work": w, "cfile": cfile, "S": S, "nranks": n, "stops": [k * dt for k in stops], "folder": FS,
                      "policy": "random", "seed": i, "eager": bool(i % 2)},
                     {"work": w, "cfile": cfile, "S": S, "nranks": n, "stops": [stops[-1] * dt], "folder": FU,
                      "policy": "asc", "seed": 0, "eager": False}))
    with concurrent.futures.ThreadPoolExecutor(max_workers=14) as ex:
        futs = {}
        for (i, S, stops, n, js, ju) in jobs:
            futs[ex.submit(drv, js)] = (i, "split")
            futs[ex.submit(drv, ju)] = (i, "unsplit")
        res = {}
        for f in concurrent.futures.as_completed(futs):
            res[futs[f]] = f.result()
    for (i, S, stops, n, js, ju) in jobs:
        m0 = {"part": "driver", "S": S, "stops": stops, "nranks": n, "dt": dt}
        events.append({"k": "newfolder"})
        meta.append(dict(m0, what="newfolder"))
        split = res[(i, "split")]
        allok = True
        for r in split:
            ok = r["ok"]
            allok = allok and ok
            try:
                files = [int(x) for x in r["files"]]
                lines = [int(float(x)) for x in r["lines"]]
            except ValueError:
                files, lines, ok = [], [], False
            events.append({"k": "run", "tEnd": r["tEnd"], "S": S, "dt": dt, "ok": bool(ok), "files": files, "lines": lines, "err": r["fault"][:400]})
            meta.append(dict(m0, what="run to step %d" % (r["tEnd"] // dt)))
        uns = res[(i, "unsplit")]
        if allok and len(split) == len(stops) and uns and uns[-1]["ok"]:
            K = stops[-1]
            tn = "%06d" % (K * dt)
            try:
                a, la = read_ck(os.path.join(js["work"], FS), "grid", tn)
                b, lb = read_ck(os.path.join(ju["work"], FU), "grid", tn)
                pa, _ = read_ck(os.path.join(js["work"], FS), "phi", tn)
                pb, _ = read_ck(os.path.join(ju["work"], FU), "phi", tn)
                same = bool(la == lb and a.shape == b.shape and (a == b).all())
                phisame = bool(pa.shape == pb.shape and (pa == pb).all())
                dev = float(np.max(np.abs(a - b))) if a.shape == b.shape else -1.0
            except Exception as ex:
                same, phisame, dev = False, False, -1.0
            events.append({"k": "final", "k2": K, "dt": dt, "same": same, "phisame": phisame})
            events[-1]["k"] = "final"
            events[-1]["kk"] = K
            meta.append(dict(m0, what="final checkpoint split vs unsplit", max_abs_dev=dev))


def run(ctx):
    rng = random.Random(ctx.seed)
    quick = ctx.quick()
    ctx.rule = ("round trip: layout at save x dtype x (process grid at save, process grid at load); latest: hand-made directories of "
                "checkpoint times with different digit counts through Grid.loadFromFile(None), setupFromFile() and setupFromFile(timepoint); "
                "constants: printed / symbolic files re-read under key permutations; driver: sequences of real fullSimulation.main() runs "
                "(save interval, stop points) against the unsplit run; distinct = distinct (part, configuration, rank / permutation); "
                "non-trivial = everything except single-process same-grid round trips")
    # design level: every split of K steps into runs, every save interval
    for S in range(1, 6 if quick else 8):
        cfg = ("INIT Init\nNEXT Next\nCONSTANTS KMax = %d S = %d DT = 2\nINVARIANT SplitEqualsUnsplit\nINVARIANT Lines\nINVARIANT Latest\n"
               "INVARIANT Contents\nCHECK_DEADLOCK FALSE\n" % (7 if quick else 10, S))
        r = ctx.tlc("RestartMC", cfg, what="all splits of <=%d steps, save interval %d" % (7 if quick else 10, S), workers=4)
        if r.violated:
            raise Machinery("Restart.tla violates %s: %s" % (r.violated, r.trace_text))
    # the constants parser as a worklist over every key order (ConstParse): complete, order independent, terminating, and an
    # explicitly given rp survives the rMin/rMax setter side effects
    cp = "SPECIFICATION Spec\nCONSTANTS Keys <- %s  Deps <- %s  HasRp = %s\nINVARIANT NeverFails\nINVARIANT Complete\nINVARIANT OrderIndependent\nINVARIANT RpKept\n"
    cp += "VIEW NoOrderView\n" if quick else "PROPERTY Terminates\n"
    r1 = ctx.tlc("ConstParse", cp % ("K1", "D1", "FALSE"), what="constants parser, every order of 8 keys with chained expressions", workers=16, big=True, timeout=3600)
    if r1.violated:
        raise Machinery("ConstParse.tla violates %s for files without explicit rp: %s" % (r1.violated, (r1.trace_text or "")[:800]))
    r2 = ctx.tlc("ConstParse", cp % ("K2", "D2", "TRUE"), what="constants parser, every order of 9 keys incl. an explicit rp", workers=16, big=True, timeout=3600)
    if r2.violated:
        raise Machinery("ConstParse.tla violates %s for files with explicit rp: %s" % (r2.violated, (r2.trace_text or "")[:800]))
    ctx.exhaustive = True
    work = tempfile.mkdtemp(prefix="c18_")
    events, meta = [], []
    try:
        part_roundtrip(ctx, rng, work, events, meta, quick)
        part_latest(ctx, rng, work, events, meta, quick)
        part_constants(ctx, rng, work, events, meta, quick)
        part_setup_overrides(ctx, work, events, meta)
        part_other_layout(ctx, rng, work, events, meta, quick)
        part_setupsave(ctx, work, events, meta)
        part_savefolder(ctx, work, events, meta, quick)
        part_driver(ctx, rng, work, events, meta, quick)
    finally:
        shutil.rmtree(work, ignore_errors=True)
    for e in events:
        if e["k"] == "final":
            e["k2"] = e.pop("kk")
    # C18Trace reads the step count of a `final` event from field k2 (k is the event kind)
    rej, _ = ctx.validate_trace("C18Trace", events, what="checkpoint / restart events recorded from the real code (%d)" % len(events))
    for j, (e, m) in enumerate(zip(events, meta), 1):
        trivial = m.get("part") == "roundtrip" and m.get("save_grid") == [1, 1] and m.get("load_grid") == [1, 1]
        ctx.count(None if trivial else json.dumps(m, sort_keys=True, default=str))
        if j in rej:
            sig = {"kind": e["k"], "clause": rej[j][0], "part": m.get("part")}
            if e["k"] == "run":
                sig["fault"] = e.get("err", "").split(" raised ")[-1].split(":")[0] if not e["ok"] else ""
            if e["k"] == "latest":
                sig["seven_digits"] = bool(max(m["times"]) >= 10 ** 6)
            if e["k"] == "const":
                sig["diff"] = ",".join(sorted(m.get("diff", [])))
                sig["explicit_rp"] = "explicit rp" in str(m.get("source"))
            ctx.violation(sig, "%s rejected by C18Trace clauses %s; observed %s" % (
                m, rej[j], {k: v for k, v in e.items() if k not in ("block", "data")}), {"event": {k: v for k, v in e.items() if k not in ("block", "data")}, "meta": m})
    ctx.sample({"meta": meta[0]})
    ctx.sample({"meta": next(m for m in meta if m.get("part") == "driver" and "run" in m.get("what", "")),
                "event": next(e for e in events if e["k"] == "run")})
    ctx.extra["events_by_kind"] = {k: sum(1 for e in events if e["k"] == k) for k in ("run", "final", "load", "dataset", "latest", "const", "folder")}
