"""C19 - accelerated kernels compute the same results as the pure-Python reference.

Translation validation: a scratch copy of /repo's working tree is built with the documented command
(make ACC=pycc LANGUAGE=fortran); every exported kernel of the five accelerated modules is called, compiled and
interpreted, on the same arguments - spline arguments come from the TLC-derived BSplines tables (and are also compared with
the exact values), advection arguments are recorded from the real operator classes, the rest are seeded and boundary
arguments - and the outputs and in-place updates are compared.  The numba / pythran source copies are loaded as plain Python.
"""
import copy
import os
import pickle
import random
import shutil
import subprocess
import sys
import tempfile
from fractions import Fraction as Fr

import numpy as np

from harness.core import Machinery, VERIF, REPO
from harness import splineoracle as so

LEVEL = "translation_validation"


def _stale(shape, dtype=float):
    """output arguments are handed over with stale contents: a kernel must overwrite, not accumulate into, its output"""
    return np.full(shape, -7.5, dtype=dtype)


def build(ctx, work):
    dst = os.path.join(work, "repo")
    subprocess.run(["rsync", "-a", "--exclude", ".git", "--exclude", "*.egg-info", "--exclude", "__pycache__", "--exclude", "*.so",
                    REPO.rstrip("/") + "/", dst + "/"], check=True)
    env = dict(os.environ, PATH="/venv/bin:" + os.environ.get("PATH", ""))
    p = subprocess.run(["make", "ACC=pycc", "LANGUAGE=fortran", "PYTHON=/venv/bin/python", "pycc"], cwd=dst, env=env,
                       stdout=subprocess.PIPE, stderr=subprocess.STDOUT, text=True, timeout=3600)
    sos = [os.path.join(d, f) for d, _, fs in os.walk(dst) for f in fs if f.endswith(".so")]
    return dst, p.returncode, p.stdout, sos


def spline_cases(spaces, rng, cases, exact):
    from pygyro.splines import splines as spl
    for sp in spaces:
        a, h = 0.5, 0.25
        basis = sp.make(a, h)
        kn = np.array(basis.knots, dtype=float)
        br = sp.real_breaks(a, h)
        xs = sorted(set([float(b) for b in br] + [float(np.nextafter(br[0], 9)), float(np.nextafter(br[-1], -9))] +
                        [float(br[0] + rng.random() * (br[-1] - br[0])) for _ in range(4)]))
        c = np.array([float(rng.randint(-9, 9)) for _ in range(sp.nb)])
        X = np.array(xs)
        if sp.kind == "cu":
            mod, pre = "cubic_uniform_spline_eval_funcs", "cu"
            for x in xs:
                cases.append({"mod": mod, "fn": "cu_find_span", "args": [float(kn[0]), float(kn[1]), float(kn[2]), x, int(kn[3])]})
            for off in (0.0, 0.25, 1.0, rng.random()):
                cases.append({"mod": mod, "fn": "cu_basis_funs", "args": [3, off, _stale(4)]})
                cases.append({"mod": mod, "fn": "cu_basis_funs_1st_der", "args": [3, off, float(kn[2]), _stale(4)]})
        else:
            mod, pre = "spline_eval_funcs", "nu"
            for x in xs:
                cases.append({"mod": mod, "fn": "nu_find_span", "args": [kn, sp.p, x]})
            for x in xs[1:-1:2]:
                span = None
                from pygyro.splines import spline_eval_funcs as nu
                span = int(nu.nu_find_span(kn, sp.p, x))
                cases.append({"mod": mod, "fn": "nu_basis_funs", "args": [kn, sp.p, x, span, _stale(sp.p + 1)]})
                cases.append({"mod": mod, "fn": "nu_basis_funs_1st_der", "args": [kn, sp.p, x, span, _stale(sp.p + 1)]})
        for der in (0, 1):
            for x in xs:
                cases.append({"mod": mod, "fn": pre + "_eval_spline_1d_scalar", "args": [x, kn, sp.p, c, der]})
                xi = min(max(so.to_int_coord(x, a, h), Fr(sp.br[0])), Fr(sp.br[-1]))
                if not (sp.p == 1 and der == 1):
                    exact[len(cases) - 1] = float(sp.spline([Fr(v) for v in c], xi, der)) / h ** der
            cases.append({"mod": mod, "fn": pre + "_eval_spline_1d_vector", "args": [X, kn, sp.p, c, _stale(len(X)), der]})
            # other argument forms of the same kernel: the points replaced by the values (output = input array; identity survives the
            # transport to the workers), and an output buffer longer than the array of points (its tail is not the kernel's)
            Xa = X.copy()
            cases.append({"mod": mod, "fn": pre + "_eval_spline_1d_vector", "args": [Xa, kn, sp.p, c, Xa, der]})
            cases.append({"mod": mod, "fn": pre + "_eval_spline_1d_vector", "args": [X, kn, sp.p, c, _stale(len(X) + 3), der]})
        # 2-D with itself
        c2 = np.array([[float(rng.randint(-5, 5)) for _ in range(sp.nb)] for _ in range(sp.nb)])
        for d1, d2 in ((0, 0), (1, 0), (0, 1), (1, 1)):
            if sp.p == 1 and (d1 or d2):
                continue       # one-sided derivatives of degree-1 splines at breakpoints: compared in 1-D only
            cases.append({"mod": mod, "fn": pre + "_eval_spline_2d_scalar", "args": [xs[1], xs[-2], kn, sp.p, kn, sp.p, c2, d1, d2]})
            cases.append({"mod": mod, "fn": pre + "_eval_spline_2d_cross", "args": [X, X[::2].copy(), kn, sp.p, kn, sp.p, c2, _stale((len(X), len(X[::2]))), d1, d2]})
            cases.append({"mod": mod, "fn": pre + "_eval_spline_2d_vector", "args": [X, X[::-1].copy(), kn, sp.p, kn, sp.p, c2, _stale(len(X)), d1, d2]})
        # 2-D with ANOTHER space of a different degree in the second direction (general path only: the fast path is cubic x cubic)
        if sp.kind != "cu":
            others = [o for o in spaces if o.kind != "cu" and o.p != sp.p and o.p >= 2]
            if others and sp.p >= 2:
                o = rng.choice(others)
                ob = o.make(-1.0, 0.5)
                okn = np.array(ob.knots, dtype=float)
                obr = o.real_breaks(-1.0, 0.5)
                Y = np.array(sorted(set([float(b) for b in obr] + [float(obr[0] + rng.random() * (obr[-1] - obr[0])) for _ in range(3)])))
                c3 = np.array([[float(rng.randint(-5, 5)) for _ in range(o.nb)] for _ in range(sp.nb)])
                Xi = X[1:-1]
                for d1, d2 in ((0, 0), (1, 0), (0, 1), (1, 1)):
                    cases.append({"mod": mod, "fn": "nu_eval_spline_2d_scalar", "args": [float(Xi[1]), float(Y[-2]), kn, sp.p, okn, o.p, c3, d1, d2]})
                    cases.append({"mod": mod, "fn": "nu_eval_spline_2d_cross", "args": [Xi.copy(), Y.copy(), kn, sp.p, okn, o.p, c3, _stale((len(Xi), len(Y))), d1, d2]})
                    n = min(len(Xi), len(Y))
                    cases.append({"mod": mod, "fn": "nu_eval_spline_2d_vector", "args": [Xi[:n].copy(), Y[:n][::-1].copy(), kn, sp.p, okn, o.p, c3, _stale(n), d1, d2]})


def advection_cases(rng, cases):
    from pygyro.splines import splines as spl
    from pygyro.advection import advection as adv
    from pygyro.model.layout import Layout
    from pygyro.initialisation.constants import Constants
    rec = []

    def wrap(name):
        orig = getattr(adv, name)

        def f(*a):
            rec.append({"mod": "accelerated_advection_steps", "fn": name, "args": copy.deepcopy(list(a))})
            return orig(*a)
        setattr(adv, name, f)
        return orig
    names = ["get_lagrange_vals", "flux_advection", "v_parallel_advection_eval_step", "poloidal_advection_step_expl", "poloidal_advection_step_impl"]
    origs = {n: wrap(n) for n in names}
    try:
        for uniform in (True, False):
            c = Constants()
            c.iotaVal = 0.8
            npts = [7, 8, 9, 10]
            dom = [[c.rMin, c.rMax], [0, 2 * np.pi], [c.zMin, c.zMax], [c.vMin, c.vMax]]
            per = [False, True, True, False]
            deg = [3, 3, 3, 3] if uniform else [2, 3, 3, 4]
            nk = [n + 1 + d * (int(p) - 1) for n, d, p in zip(npts, deg, per)]
            brk = [np.linspace(*l, num=k) for l, k in zip(dom, nk)]
            bs = [spl.BSplines(spl.make_knots(b, d, p), d, p, uniform) for b, d, p in zip(brk, deg, per)]
            eta = [b.greville for b in bs]
            lay = Layout("flux_surface", [1], [0, 3, 1, 2], eta, [0])
            fa = adv.FluxSurfaceAdvection(eta, [bs[1], bs[2]], lay, 0.7 * (1 if uniform else -13.0), c)
            for (ci, ri) in ((0, 0), (3, 2), (npts[3] - 1, npts[0] - 1)):
                f = np.array([[rng.uniform(0, 1) for _ in range(npts[2])] for _ in range(npts[1])])
                fa.step(f, ci, ri)
            for edge in ("fEq", "null", "periodic"):
                va = adv.VParallelAdvection(eta, bs[3], c, edge)
                for cdt in (0.0, 0.3, -0.7, 5.0, -40.0):
                    f = np.array([rng.uniform(0, 1) for _ in range(npts[3])])
                    va.step(f, 1.0, cdt, eta[0][2])
            for expl in (True, False):
                for nul in (True, False):
                    pa = adv.PoloidalAdvection(eta, [bs[1], bs[0]], c, nulEdge=nul, explicitTrap=expl)
                    phi = spl.Spline2D(bs[1], bs[0])
                    phi.coeffs[:] = np.array([[0.05 * rng.uniform(-1, 1) + 0.002 * j * j for j in range(phi.coeffs.shape[1])] for i in range(phi.coeffs.shape[0])])
                    if phi.basis[0].periodic:
                        p0 = phi.basis[0]
                        phi.coeffs[p0.ncells:p0.ncells + p0.degree, :] = phi.coeffs[:p0.degree, :]
                    for dt in (0.5, -0.3):
                        f = np.array([[rng.uniform(0, 1) for _ in range(npts[0])] for _ in range(npts[1])])
                        pa.step(f, dt, phi, eta[3][4])
    finally:
        for n, o in origs.items():
            setattr(adv, n, o)
    # boundary arguments for the periodic z index of get_lagrange_vals: shifts beyond one and two periods, either sign
    # (vals is a view inside a sentinel-filled buffer so that an out-of-range write of a compiled kernel is visible, not fatal)
    base = next((r for r in rec if r["fn"] == "get_lagrange_vals"), None)
    if base is not None:
        i0, sh0, vals0, q0, ts0, kts0, deg0, co0, cu0 = base["args"]
        nz = vals0.shape[0]
        for i in (0, 1, nz - 1):
            for lo in (nz + i + 1, 2 * nz + 3, -(nz + 2), -(2 * nz + i + 1), -2, 0):
                big = np.full((3 * nz,) + vals0.shape[1:], -777.0)
                v = big[nz:2 * nz]
                shifts = np.arange(lo, lo + len(sh0), dtype=sh0.dtype)
                rec.append({"mod": "accelerated_advection_steps", "fn": "get_lagrange_vals",
                            "args": [i, shifts, v, q0.copy(), ts0.copy(), kts0.copy(), deg0, co0.copy(), cu0], "base": big, "base_arg": 2})
    # the scratch arrays are outputs as well; bools/ints must keep their python types
    cases.extend(rec)


def misc_cases(rng, cases):
    for t in range(12):
        n, m, p, nc = rng.randint(1, 4), rng.randint(1, 4), rng.randint(1, 4), rng.randint(2, 7)
        q = np.array([rng.uniform(0.1, 1) for _ in range(nc)])
        g = np.random.RandomState(t).uniform(-1, 1, (n, m, p, nc))
        fe = np.random.RandomState(t + 100).uniform(-1, 1, (n, nc))
        for dtype in (float, np.complex128):
            cases.append({"mod": "poisson_tools", "fn": "get_rho", "args": [np.full((n, m, p), (-7.0 - 5.0j) if dtype is complex else -7.0, dtype=dtype), g, q]})       # stale output storage
            cases.append({"mod": "poisson_tools", "fn": "get_perturbed_rho", "args": [np.full((n, m, p), (3.0 + 2.0j) if dtype is complex else 3.0, dtype=dtype), fe, g, q]})
    from pygyro.initialisation.constants import Constants
    c = Constants()
    P = [c.CN0, c.kN0, c.deltaRN0, c.rp, c.CTi, c.kTi, c.deltaRTi]
    rs = [c.rMin, c.rMax, c.rp, 3.3, 11.9]
    for r in rs:
        cases.append({"mod": "initialiser_funcs", "fn": "n0", "args": [r, c.CN0, c.kN0, c.deltaRN0, c.rp]})
        cases.append({"mod": "initialiser_funcs", "fn": "Ti", "args": [r, c.CTi, c.kTi, c.deltaRTi, c.rp]})
        cases.append({"mod": "initialiser_funcs", "fn": "Te", "args": [r, c.CTe, c.kTe, c.deltaRTe, c.rp]})
        cases.append({"mod": "initialiser_funcs", "fn": "n0deriv_normalised", "args": [r, c.kN0, c.rp, c.deltaRN0]})
        for v in (c.vMin, 0.0, 1.7, c.vMax):
            cases.append({"mod": "initialiser_funcs", "fn": "f_eq", "args": [r, v] + P})
            cases.append({"mod": "initialiser_funcs", "fn": "init_f", "args": [r, 0.7, 100.0, v, 3, 1, 1e-3] + P + [c.deltaR, c.R0]})
        cases.append({"mod": "initialiser_funcs", "fn": "perturbation", "args": [r, 1.1, 77.0, 3, 1, c.rp, c.deltaR, c.R0]})
    th = np.linspace(0, 2 * np.pi, 5, endpoint=False)
    z = np.linspace(0, 1000.0, 4)
    vv = np.linspace(c.vMin, c.vMax, 6)
    rr = np.linspace(c.rMin, c.rMax, 5)
    tail = [3, 1, 1e-2] + P + [c.deltaR, c.R0]
    cases.append({"mod": "initialiser_funcs", "fn": "init_f_flux", "args": [_stale((5, 4)), 4.4, th, z, 1.3] + tail})
    cases.append({"mod": "initialiser_funcs", "fn": "init_f_pol", "args": [_stale((5, 5)), rr, th, 33.0, -2.0] + tail})
    cases.append({"mod": "initialiser_funcs", "fn": "init_f_vpar", "args": [_stale((5, 6)), 7.7, th, 500.0, vv] + tail})
    cases.append({"mod": "initialiser_funcs", "fn": "feq_vector", "args": [_stale((5, 6)), rr, vv] + P})


def run_worker(root, variant, cases_p, out_p):
    p = subprocess.run([sys.executable, os.path.join(VERIF, "harness", "c19worker.py"), root, variant, cases_p, out_p],
                       capture_output=True, text=True, timeout=3600, env=dict(os.environ, PYTHONHASHSEED="0"))
    if p.returncode != 0:
        return None, "[exit %d] " % p.returncode + p.stderr[-2000:]
    return pickle.load(open(out_p, "rb")), ""


def diff(a, b, tol):
    """max relative deviation between two result records, or a string for structural differences"""
    if ("err" in a) != ("err" in b):
        return "one build fails: %s / %s" % (a.get("err"), b.get("err"))
    if "err" in a:
        return 0.0
    dev = 0.0

    def cmp(x, y):
        nonlocal dev
        if x is None and y is None:
            return None
        x, y = np.asarray(x), np.asarray(y)
        if x.shape != y.shape:
            return "shape %s vs %s" % (x.shape, y.shape)
        if x.size == 0:
            return None
        if np.isnan(x).any() or np.isnan(y).any():
            if not np.array_equal(np.isnan(x), np.isnan(y)):
                return "NaN pattern differs"
            x, y = np.nan_to_num(x), np.nan_to_num(y)
        sc = max(1.0, float(np.max(np.abs(y))))
        dev = max(dev, float(np.max(np.abs(x - y))) / sc)
        return None
    ra, rb = a["ret"], b["ret"]
    if isinstance(ra, tuple) or isinstance(rb, tuple):
        ra, rb = np.array(ra, dtype=float), np.array(rb, dtype=float)
    if (ra is None) != (rb is None):
        return "return value None vs not None"
    r = cmp(ra, rb)
    if r:
        return r
    for x, y in zip(a["arrays"], b["arrays"]):
        r = cmp(x, y)
        if r:
            return r
    return dev


def run(ctx):
    rng = random.Random(ctx.seed)
    np.random.seed(ctx.seed)
    quick = ctx.quick()
    ctx.rule = ("programs = exported kernels of the five accelerated modules; cases = calls with arguments from the TLC spline tables "
                "(breakpoints, end points, one ulp inside, seeded), recorded from the operator classes (three v-parallel boundary modes, "
                "both poloidal time schemes and edge modes, general and uniform-cubic splines) and seeded/boundary scalars; each case runs "
                "on the pyccel-built copy of the working tree, the interpreted sources and the numba/pythran copies loaded as Python; "
                "distinct = (module, function, argument digest)")
    spaces = so.run_box(ctx, 4, 3, 5)
    rng.shuffle(spaces)
    keep, seen = [], {}
    for s in spaces:
        k = (s.p, s.kind)
        if s.ncells >= 2 and seen.get(k, 0) < (2 if quick else 6):
            seen[k] = seen.get(k, 0) + 1
            keep.append(s)
    cases, exact = [], {}
    spline_cases(keep, rng, cases, exact)
    advection_cases(rng, cases)
    misc_cases(rng, cases)
    for i, c in enumerate(cases):
        ctx.count((c["mod"], c["fn"], len(pickle.dumps(c["args"])), i))
    ctx.extra.update({"programs": len({(c["mod"], c["fn"]) for c in cases}), "disagreements_checked": 0, "cases": len(cases)})
    work = tempfile.mkdtemp(prefix="c19_")
    try:
        cp = os.path.join(work, "cases.pkl")
        pickle.dump(cases, open(cp, "wb"))
        dst, rc, log, sos = build(ctx, work)
        ctx.extra["build_returncode"] = rc
        ctx.extra["shared_libraries_built"] = sorted(os.path.basename(s).split(".")[0] for s in sos)
        if rc != 0 or len(sos) < 5:
            ctx.violation({"kind": "build-fails"}, "the documented build (make ACC=pycc LANGUAGE=fortran pycc) failed on a copy of the working tree "
                          "(exit %s, %d shared libraries): %s" % (rc, len(sos), log[-1500:]), {"log_tail": log[-3000:]})
            return
        res = {}
        for variant, root in (("python", REPO), ("compiled", dst), ("numba", REPO), ("pythran", REPO)):
            out, err = run_worker(root, variant, cp, os.path.join(work, variant + ".pkl"))
            if out is None and variant == "compiled" and err.startswith("[exit -"):
                # the interpreted sources ran every case; the process running the pyccel-built kernels on the same cases was killed by a
                # signal (memory corruption / out-of-bounds access in generated code): the builds do not compute the same thing
                ctx.violation({"kind": "compiled-kernels-crash", "variant": "compiled"},
                              "the worker running the pyccel-built kernels died %s while the interpreted sources complete all %d cases" % (err[:200], len(cases)),
                              {"stderr": err})
                return
            if out is None:
                raise Machinery("worker %s failed: %s" % (variant, err))
            res[variant] = out
    finally:
        shutil.rmtree(work, ignore_errors=True)
    ref = res["python"]
    progs = set()
    ndis = 0
    maxdev = {"compiled": 0.0, "numba": 0.0, "pythran": 0.0}
    for variant in ("compiled", "numba", "pythran"):
        ex = res[variant]["exported"]
        for short, names in ref["exported"].items():
            if isinstance(ex.get(short), str):
                ctx.violation({"kind": "module-does-not-load", "variant": variant, "module": short}, "%s copy of %s does not load: %s" % (variant, short, ex[short]), {})
                continue
            called = {c["fn"] for c in cases if c["mod"] == short}
            missing = [n for n in called if n not in ex[short]]
            if missing:
                ctx.violation({"kind": "function-missing", "variant": variant, "module": short, "functions": ",".join(sorted(missing))},
                              "%s copy of %s does not define %s (defined by the pure-Python source)" % (variant, short, sorted(missing)), {})
        for i, (c, a, b) in enumerate(zip(cases, res[variant]["results"], ref["results"])):
            if "err" in a and (a["err"].startswith("module") or a["err"] == "missing function"):
                continue        # reported once per module above
            progs.add((c["mod"], c["fn"]))
            ndis += 1
            impl = c["fn"].startswith("poloidal_advection_step_impl")
            tol = 1e-8 if impl else 1e-11
            d = diff(a, b, tol)
            if isinstance(d, str) or d > tol:
                ctx.violation({"kind": "results-differ", "variant": variant, "module": c["mod"], "function": c["fn"]},
                              "%s.%s: %s build and interpreted source disagree (%s) on case %d" % (c["mod"], c["fn"], variant, d, i),
                              {"case": i, "args": [a_.tolist() if isinstance(a_, np.ndarray) and a_.size < 60 else (a_ if not isinstance(a_, np.ndarray) else "array%s" % (a_.shape,)) for a_ in c["args"]]})
            elif not isinstance(d, str):
                maxdev[variant] = max(maxdev[variant], d)
            if variant == "compiled":
                if i in exact and "err" not in a:
                    if abs(float(a["ret"]) - exact[i]) > 1e-9 * max(1.0, abs(exact[i])):
                        ctx.violation({"kind": "compiled-vs-exact", "function": c["fn"]}, "compiled %s returns %r, exact B-spline value %r" % (c["fn"], float(a["ret"]), exact[i]),
                                      {"case": i})
    if any("err" in r and not str(r["err"]).startswith("module") for r in ref["results"]):
        bad = [(c["fn"], r["err"]) for c, r in zip(cases, ref["results"]) if "err" in r][:5]
        ctx.note("some reference calls raise (compared as equal failures): %s" % bad)
    ctx.extra.update({"programs": len(progs), "disagreements_checked": ndis, "cases": len(cases), "max_relative_deviation": maxdev,
                      "compared_with_exact_spline_values": len(exact),
                      "explanation": "pyccel/gfortran build of the working tree vs interpreted sources; numba/pythran copies as plain Python"})
    ctx.sample({"case": 0, "function": cases[0]["fn"], "args": [str(a)[:80] for a in cases[0]["args"]]})
    ctx.sample({"function": cases[-1]["fn"], "module": cases[-1]["mod"]})
    ctx.traces = len(cases)
