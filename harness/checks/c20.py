"""C20 - process-grid selection returns a valid factorisation or reports none exists.

Spec: ProcGrid (statement-by-statement state machine of the divisor search; Terminates / ValidResult / RaisesIffNone checked
by TLC for every (max1, max2, size) of a box), C20Trace (judges calls of the real functions by the property).
"""
import random
import signal

import numpy as np

from harness.core import Machinery
from harness import simlayout as sl
from harness.scenarios import STD

LEVEL = "model_checking"


class _Timeout(Exception):
    pass


def _alarm(signum, frame):
    raise _Timeout()


def call(fn, *args, cap=5.0):
    """-> (returned, raised, n1, n2)"""
    signal.signal(signal.SIGALRM, _alarm)
    signal.setitimer(signal.ITIMER_REAL, cap)
    try:
        try:
            r = fn(*args)
            return True, False, int(r[0]), int(r[1])
        except _Timeout:
            return False, False, 0, 0
        except Exception:         # any refusal counts as "raises"
            return True, True, 0, 0
    finally:
        signal.setitimer(signal.ITIMER_REAL, 0)


def build_job(comm, npts, nprocs):
    shape = list(npts)
    h, eta = sl.handler_job(comm, shape, list(nprocs), STD)
    G = sl.tokens(shape)
    ok = True
    with sl.warnings.catch_warnings():
        sl.warnings.simplefilter("ignore")
        for a in STD:
            for b in STD:
                x, y = sl.fresh(h.bufferSize, float), sl.fresh(h.bufferSize, float)
                la, lb = h.getLayout(a), h.getLayout(b)
                if la.size == 0 or lb.size == 0:
                    ok = False
                x[:la.size] = sl.local_block(G, la).ravel()
                h.transpose(x, y, a, b)
                ok = ok and bool((y[:lb.size] == sl.local_block(G, lb).ravel()).all())
    return ok


def setup_job(comm, cfile, plot, fromfile=None, draw=0):
    """The grid as the set-up functions choose it: on the communicator the LAYOUTS live on (all ranks but the plot-only one)."""
    from pygyro.initialisation.setups import setupCylindricalGrid, setupFromFile
    with sl.warnings.catch_warnings():
        sl.warnings.simplefilter("ignore")
        try:
            if fromfile:
                g, c, _ = setupFromFile(fromfile, comm=comm, plotThread=plot, drawRank=draw, layout="v_parallel")
            else:
                g, c, _ = setupCylindricalGrid(layout="v_parallel", constantFile=cfile, comm=comm, plotThread=plot, drawRank=draw)
        except RuntimeError as ex:
            return ("raised", str(ex))
        if plot and comm.Get_rank() == draw:
            return ("plot",)
        lay = g.getLayout("v_parallel")
        ok = lay.size > 0
        for name in ("flux_surface", "poloidal", "v_parallel"):
            g.setLayout(name)
            ok = ok and g.getLayout(name).size > 0
        return ("ok", [int(x) for x in lay.nprocs[:2]], bool(ok))


def run(ctx):
    from mpi4py import MPI
    from pygyro.model.process_grid import compute_2d_process_grid, compute_2d_process_grid_from_max
    rng = random.Random(ctx.seed)
    quick = ctx.quick()
    M, S = (20, 32) if quick else (32, 48)
    ctx.rule = ("every (max1, max2, size) with max1,max2 in 1..%d, size in 1..%d is one initial state of ProcGrid and one call of the "
                "real function; plus seeded random inputs far beyond (max up to 3000, size up to 10^6) and grid-level calls whose result "
                "is used to build and connect the three standard layouts on the simulated ranks; distinct = distinct input triples; "
                "non-trivial = size > 1" % (M, S))
    cfg = ("SPECIFICATION Spec\nCONSTANTS MaxM = %d MaxSize = %d\nINVARIANT ValidResult\nINVARIANT RaisesIffNone\nINVARIANT StepBound\n"
           "INVARIANT Dump\nPROPERTY Terminates\nCHECK_DEADLOCK TRUE\n" % (M, S))
    r = ctx.tlc("ProcGrid", cfg, what="divisor search, all max1,max2<=%d size<=%d, safety + termination" % (M, S), big=True,
                coverage=False, timeout=7200)
    if r.violated:
        ctx.violation({"kind": "design", "invariant": r.violated},
                      "ProcGrid.tla (transcription of compute_2d_process_grid_from_max) violates %s:\n%s" % (r.violated, (r.trace_text or "")[:3000]),
                      {"spec": "ProcGrid"})
    ctx.exhaustive = True
    spec = {(x["max1"], x["max2"], x["size"]): x for x in r.rows}
    if len(spec) != M * M * S:
        raise Machinery("expected %d terminal states, TLC printed %d" % (M * M * S, len(spec)))
    events, meta = [], []
    for (a, b, s), x in sorted(spec.items()):
        ret, raised, n1, n2 = call(compute_2d_process_grid_from_max, a, b, s)
        events.append({"k": "call", "max1": a, "max2": b, "size": s, "returned": ret, "raised": raised, "n1": n1, "n2": n2})
        meta.append(("box", a, b, s))
        if ret and (raised != x["raised"] or (not raised and (n1, n2) != (x["n1"], x["n2"]))):
            ctx.drift_report("from_max(%d,%d,%d): code %s, exact-arithmetic transcription %s" % (
                a, b, s, "raises" if raised else (n1, n2), "raises" if x["raised"] else (x["n1"], x["n2"])))
    nrand = 1500 if quick else 20000
    for _ in range(nrand):
        a = rng.randint(1, rng.choice([40, 300, 3000]))
        b = rng.randint(1, rng.choice([40, 300, 3000]))
        if rng.random() < 0.6:      # sizes with a divisor structure that makes a fit likely
            s = rng.randint(1, a) * rng.randint(1, b)
        else:
            s = rng.randint(1, 10 ** rng.randint(2, 6))
        s = min(s, 10 ** 6)
        ret, raised, n1, n2 = call(compute_2d_process_grid_from_max, a, b, s)
        events.append({"k": "call", "max1": a, "max2": b, "size": s, "returned": ret, "raised": raised, "n1": n1, "n2": n2})
        meta.append(("random", a, b, s))
    # the entry point that takes grid sizes, on every small size vector (extents of 1 - a single plane, a single radius - included)
    top = 4 if quick else 6
    for nr in range(1, top + 1):
        for nz in range(1, top + 1):
            for nv in range(1, top + 1):
                for s in range(1, 13):
                    ret, raised, n1, n2 = call(compute_2d_process_grid, [nr, 8, nz, nv], s)
                    events.append({"k": "gridcall", "npts": [nr, 8, nz, nv], "size": s, "returned": ret, "raised": raised, "n1": n1, "n2": n2})
                    meta.append(("gridcall", (nr, 8, nz, nv), s))
    ngrid = 40 if quick else 250
    for i in range(ngrid):
        npts = [rng.randint(2, 9) for _ in range(4)]
        s = rng.choice([1, 2, 3, 4, 6, 8, 9, 12]) if i else 4
        ret, raised, n1, n2 = call(compute_2d_process_grid, npts, s)
        built = False
        if ret and not raised and n1 * n2 == s and n1 >= 1 and n2 >= 1:
            res = MPI.run(s, build_job, policy="random", seed=i, args=(npts, (n1, n2)))
            built = bool(res.ok and all(res.values))
        events.append({"k": "grid", "npts": npts, "size": s, "raised": bool(raised or not ret), "n1": n1, "n2": n2, "built": built})
        meta.append(("grid", tuple(npts), s))
    # the set-up functions: with a plot-only rank the layouts live on one rank fewer than the communicator passed in
    import os
    import shutil
    import tempfile
    from harness import scenarios
    work = tempfile.mkdtemp(prefix="c20_")
    try:
        fixed = [([8, 8, 4, 8], 7, False), ([7, 8, 8, 7], 7, False), ([8, 5, 8, 8], 9, True), ([6, 8, 6, 6], 6, False), ([5, 8, 8, 5], 6, True)]
        for i in range(20 if quick else 80):
            npts = [rng.randint(5, 8), rng.randint(4, 8), rng.randint(4, 8), rng.randint(5, 8)]     # clamped cubic r and v need > 3 points
            n = rng.choice([2, 3, 4, 5, 6, 7, 8])
            plot = bool(i % 3)
            if i < len(fixed):              # process counts at the limit of what the grid sizes allow
                npts, n, plot = fixed[i]
            cfile = scenarios.write_constants(os.path.join(work, "c%d.json" % i), npts=npts)
            fromfile = None
            if i % 2:                      # the restart set-up on a folder that holds the parameter file only (fresh start in the given layout)
                fromfile = os.path.join(work, "f%d" % i)
                os.makedirs(fromfile)
                shutil.copy(cfile, os.path.join(fromfile, "initParams.json"))
            draw = (n - 1) if (plot and i % 4 >= 2) else 0
            res = MPI.run(n, setup_job, policy="random", seed=i, args=(cfile, plot, fromfile, draw))
            s = n - 1 if plot else n
            vals = [v for v in (res.values or []) if v and v[0] != "plot"] if res.ok else []
            raised = bool(vals) and all(v[0] == "raised" and "no valid combination" in v[1] for v in vals)
            oks = [v for v in vals if v[0] == "ok"]
            same = len(oks) == len(vals) and len({tuple(v[1]) for v in oks}) == 1
            n1, n2 = (oks[0][1] if same and oks else [0, 0])
            events.append({"k": "grid", "npts": npts, "size": s, "raised": raised, "n1": n1, "n2": n2,
                           "built": bool(same and oks and all(v[2] for v in oks))})
            meta.append(("setup", tuple(npts), s, "plot-only rank" if plot else "no plot rank", res.describe()[:200]))
    finally:
        shutil.rmtree(work, ignore_errors=True)
    rej, _ = ctx.validate_trace("C20Trace", events, what="calls of the real functions (%d)" % len(events))
    for j, (e, m) in enumerate(zip(events, meta), 1):
        ctx.count(m if e["size"] > 1 else None)
        if j in rej:
            ctx.violation({"kind": e["k"], "clause": rej[j][0]}, "call %s -> %s rejected by C20Trace clauses %s" % (
                m, {k: e[k] for k in ("raised", "n1", "n2")}, rej[j]), {"event": e})
    ctx.sample(events[777])
    ctx.sample(events[-1])
    ctx.sample(next(e for e in events if e["k"] == "call" and e["raised"]))
