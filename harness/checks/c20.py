"""C20 - process-grid selection returns a valid factorisation or reports none exists.

Spec: ProcGrid (statement-by-statement state machine of the divisor search; Terminates / ValidResult / RaisesIffNone checked
by TLC for every (max1, max2, size) of a box), C20Trace (judges calls of the real functions by the property).
"""
import random
import signal

import numpy as np

from harness.core import Machinery
from harness import simlayout as sl
from harness.scenarios import STD

LEVEL = "model_checking"


class _Timeout(Exception):
    pass


def _alarm(signum, frame):
    raise _Timeout()


def call(fn, *args, cap=5.0):
    """-> (returned, raised, n1, n2)"""
    signal.signal(signal.SIGALRM, _alarm)
    signal.setitimer(signal.ITIMER_REAL, cap)
    try:
        try:
            r = fn(*args)
            return True, False, int(r[0]), int(r[1])
        except _Timeout:
            return False, False, 0, 0
        except Exception:         # any refusal counts as "raises"
            return True, True, 0, 0
    finally:
        signal.setitimer(signal.ITIMER_REAL, 0)


def build_job(comm, npts, nprocs):
    shape = list(npts)
    h, eta = sl.handler_job(comm, shape, list(nprocs), STD)
    G = sl.tokens(shape)
    ok = True
    with sl.warnings.catch_warnings():
        sl.warnings.simplefilter("ignore")
        for a in STD:
            for b in STD:
                x, y = sl.fresh(h.bufferSize, float), sl.fresh(h.bufferSize, float)
                la, lb = h.getLayout(a), h.getLayout(b)
                if la.size == 0 or lb.size == 0:
                    ok = False
                x[:la.size] = sl.local_block(G, la).ravel()
                h.transpose(x, y, a, b)
                ok = ok and bool((y[:lb.size] == sl.local_block(G, lb).ravel()).all())
    return ok


def run(ctx):
    from mpi4py import MPI
    from pygyro.model.process_grid import compute_2d_process_grid, compute_2d_process_grid_from_max
    rng = random.Random(ctx.seed)
    quick = ctx.quick()
    M, S = (20, 32) if quick else (32, 48)
    ctx.rule = ("every (max1, max2, size) with max1,max2 in 1..%d, size in 1..%d is one initial state of ProcGrid and one call of the "
                "real function; plus seeded random inputs far beyond (max up to 3000, size up to 10^6) and grid-level calls whose result "
                "is used to build and connect the three standard layouts on the simulated ranks; distinct = distinct input triples; "
                "non-trivial = size > 1" % (M, S))
    cfg = ("SPECIFICATION Spec\nCONSTANTS MaxM = %d MaxSize = %d\nINVARIANT ValidResult\nINVARIANT RaisesIffNone\nINVARIANT StepBound\n"
           "INVARIANT Dump\nPROPERTY Terminates\nCHECK_DEADLOCK TRUE\n" % (M, S))
    r = ctx.tlc("ProcGrid", cfg, what="divisor search, all max1,max2<=%d size<=%d, safety + termination" % (M, S), big=True,
                coverage=False, timeout=7200)
    if r.violated:
        ctx.violation({"kind": "design", "invariant": r.violated},
                      "ProcGrid.tla (transcription of compute_2d_process_grid_from_max) violates %s:\n%s" % (r.violated, (r.trace_text or "")[:3000]),
                      {"spec": "ProcGrid"})
    ctx.exhaustive = True
    spec = {(x["max1"], x["max2"], x["size"]): x for x in r.rows}
    if len(spec) != M * M * S:
        raise Machinery("expected %d terminal states, TLC printed %d" % (M * M * S, len(spec)))
    events, meta = [], []
    for (a, b, s), x in sorted(spec.items()):
        ret, raised, n1, n2 = call(compute_2d_process_grid_from_max, a, b, s)
        events.append({"k": "call", "max1": a, "max2": b, "size": s, "returned": ret, "raised": raised, "n1": n1, "n2": n2})
        meta.append(("box", a, b, s))
        if ret and (raised != x["raised"] or (not raised and (n1, n2) != (x["n1"], x["n2"]))):
            ctx.drift_report("from_max(%d,%d,%d): code %s, exact-arithmetic transcription %s" % (
                a, b, s, "raises" if raised else (n1, n2), "raises" if x["raised"] else (x["n1"], x["n2"])))
    nrand = 1500 if quick else 20000
    for _ in range(nrand):
        a = rng.randint(1, rng.choice([40, 300, 3000]))
        b = rng.randint(1, rng.choice([40, 300, 3000]))
        if rng.random() < 0.6:      # sizes with a divisor structure that makes a fit likely
            s = rng.randint(1, a) * rng.randint(1, b)
        else:
            s = rng.randint(1, 10 ** rng.randint(2, 6))
        s = min(s, 10 ** 6)
        ret, raised, n1, n2 = call(compute_2d_process_grid_from_max, a, b, s)
        events.append({"k": "call", "max1": a, "max2": b, "size": s, "returned": ret, "raised": raised, "n1": n1, "n2": n2})
        meta.append(("random", a, b, s))
    ngrid = 40 if quick else 250
    for i in range(ngrid):
        npts = [rng.randint(2, 9) for _ in range(4)]
        s = rng.choice([1, 2, 3, 4, 6, 8, 9, 12]) if i else 4
        ret, raised, n1, n2 = call(compute_2d_process_grid, npts, s)
        built = False
        if ret and not raised and n1 * n2 == s and n1 >= 1 and n2 >= 1:
            res = MPI.run(s, build_job, policy="random", seed=i, args=(npts, (n1, n2)))
            built = bool(res.ok and all(res.values))
        events.append({"k": "grid", "npts": npts, "size": s, "raised": bool(raised or not ret), "n1": n1, "n2": n2, "built": built})
        meta.append(("grid", tuple(npts), s))
    rej, _ = ctx.validate_trace("C20Trace", events, what="calls of the real functions (%d)" % len(events))
    for j, (e, m) in enumerate(zip(events, meta), 1):
        ctx.count(m if e["size"] > 1 else None)
        if j in rej:
            ctx.violation({"kind": e["k"], "clause": rej[j][0]}, "call %s -> %s rejected by C20Trace clauses %s" % (
                m, {k: e[k] for k in ("raised", "n1", "n2")}, rej[j]), {"event": e})
    ctx.sample(events[777])
    ctx.sample(events[-1])
    ctx.sample(next(e for e in events if e["k"] == "call" and e["raised"]))
