"""Shared plumbing of the per-property checks: context, evidence, violations, known findings."""
import hashlib
import json
import os
import sys
import time
import traceback

VERIF = os.path.dirname(os.path.dirname(os.path.abspath(__file__)))
REPO = os.environ.get("VERIF_REPO", "/repo")
sys.path[:0] = [p for p in (os.path.join(VERIF, "shim"), REPO, VERIF) if p not in sys.path]

from harness import tlc as _tlc   # noqa: E402


class Machinery(Exception):
    """The checking machinery itself failed (exit 2, never a VIOLATION line)."""


def load_findings():
    p = os.path.join(VERIF, "known_findings.json")
    if not os.path.exists(p):
        return []
    return json.load(open(p)).get("findings", [])


class Ctx:
    def __init__(self, pid, tier, seed, level="model_checking"):
        self.pid, self.tier, self.seed, self.level = pid, tier, seed, level
        self.t0 = time.time()
        self.evaluations = 0
        self.distinct = set()
        self.samples = []
        self.states = 0
        self.transitions = 0
        self.traces = 0
        self.tlc_runs = []
        self.violations = []
        self.known_hits = {}
        self.drift = []
        self.notes = []
        self.extra = {}
        self.assumptions = []
        self.rule = ""
        self.findings = [f for f in load_findings() if f.get("property") == pid]
        self.exhaustive = False

    # ---- bookkeeping -------------------------------------------------------------
    def quick(self):
        return self.tier != "thorough"

    def count(self, key=None, n=1):
        self.evaluations += n
        if key is not None:
            self.distinct.add(key if isinstance(key, (str, int, tuple)) else json.dumps(key, sort_keys=True, default=str))

    def sample(self, s, cap=6):
        if len(self.samples) < cap:
            self.samples.append(s)

    def note(self, s):
        self.notes.append(s)
        print("note: " + s, flush=True)

    def log(self, s):
        print(s, flush=True)

    # ---- TLC ---------------------------------------------------------------------
    def tlc(self, module, cfg, what="", allow_violation=False, **kw):
        """Run TLC; a TLC-side evaluation error is machinery. Returns TLCResult."""
        r = _tlc.run_tlc(module, cfg, **kw)
        self.states += r.distinct
        self.transitions += r.generated
        self.tlc_runs.append({"module": module, "what": what, "generated": r.generated, "distinct": r.distinct,
                              "depth": r.depth, "wall_s": round(r.wall, 2), "violated": r.violated,
                              "coverage": r.coverage or None})
        if r.error_text is not None:
            raise Machinery("TLC failed on %s (%s):\n%s" % (module, what, r.error_text))
        if r.violated is not None and not allow_violation:
            # a violated invariant of the *specification itself* (design-level) - reported by the caller
            pass
        return r

    def apalache(self, module, init, inv, length, cinit=None, what="", timeout=900):
        """Apalache (symbolic) check of `inv` from `init` over `length` steps; returns True (holds) / False (violated).
        Anything else (type error, timeout, missing tool) is machinery."""
        import shutil
        import subprocess
        d = _tlc.scratch_dir("apa")
        try:
            shutil.copy(os.path.join(VERIF, "spec", module + ".tla"), d)
            cmd = ["apalache-mc", "check", "--init=" + init, "--inv=" + inv, "--length=%d" % length, "--out-dir=" + os.path.join(d, "out")]
            if cinit:
                cmd.append("--cinit=" + cinit)
            t0 = time.time()
            env = dict(os.environ, JVM_ARGS="-Xmx4g -Djava.io.tmpdir=" + d, TMPDIR=d)      # (the wrapper makes its own SANY* directory under $TMPDIR)
            try:
                pr = subprocess.run(cmd + [module + ".tla"], cwd=d, capture_output=True, text=True, timeout=timeout, env=env)
            except subprocess.TimeoutExpired:
                raise Machinery("apalache timed out on %s (%s)" % (module, what))
            self.tlc_runs.append({"module": module, "what": "apalache: " + what, "generated": 0, "distinct": 0, "depth": length,
                                  "wall_s": round(time.time() - t0, 2), "violated": None if pr.returncode == 0 else inv, "coverage": None})
            if pr.returncode == 0 and "EXITCODE: OK" in pr.stdout:
                return True
            if pr.returncode == 12:
                return False
            raise Machinery("apalache failed on %s (%s), exit %d:\n%s" % (module, what, pr.returncode, pr.stdout[-1500:] + pr.stderr[-500:]))
        finally:
            shutil.rmtree(d, ignore_errors=True)

    def validate_trace(self, module, events, what="", consts="", timeout=3600, count=True, init="Init", nxt="Next"):
        """Trace validation (code -> spec): events are dicts with a kind `k`; ids are assigned here.
        Returns {id: [failing clause names]} (without DRIFT) and the list of drifting ids."""
        events[:] = [_sanitise(e) for e in events]
        for i, e in enumerate(events):
            e["id"] = i + 1
        text = "".join(json.dumps(e, separators=(",", ":")) + "\n" for e in events)
        cfg = "INIT %s\nNEXT %s\nPOSTCONDITION Accepted\nCHECK_DEADLOCK FALSE\n" % (init, nxt) + consts
        r = self.tlc(module, cfg, what=what, workers=1, files={"trace.ndjson": text},
                     env={"TRACE_FILE": "trace.ndjson"}, timeout=timeout)
        if r.violated is not None:
            raise Machinery("trace spec %s did not consume the whole trace (%s): %s" % (module, r.violated, (r.trace_text or "")[:1500]))
        if r.distinct != len(events) + 1:
            raise Machinery("trace spec %s visited %d states for %d events" % (module, r.distinct, len(events)))
        rej, drift = {}, []
        for x in r.rejects:
            if x["clause"] == "DRIFT":
                drift.append(x["id"])
            else:
                rej.setdefault(x["id"], []).append(x["clause"])
        if count:
            self.traces += len(events)
        return rej, drift

    # ---- verdicts ------------------------------------------------------------------
    def violation(self, sig, detail, replay=None):
        """Record a violation of the property by the real code.

        sig: dict classifying the failing input / call site (matched against known_findings.json).
        """
        for f in self.findings:
            if f.get("status") == "known" and all(sig.get(k) == v for k, v in f.get("match", {}).items()):
                h = self.known_hits.setdefault(f["id"], {"finding": f, "count": 0, "first": detail})
                h["count"] += 1
                return
        rec = {"property": self.pid, "signature": sig, "detail": detail, "replay": replay or {},
               "tier": self.tier, "seed": self.seed}
        self.violations.append(rec)

    def drift_report(self, what):
        if len(self.drift) < 20:
            self.drift.append(what)

    def finish(self):
        wall = time.time() - self.t0
        evdir = os.environ.get("VERIF_EVIDENCE_DIR") or os.path.join(VERIF, "evidence")
        os.makedirs(evdir, exist_ok=True)
        cov = {
            "evaluations": int(self.evaluations),
            "distinct_nontrivial": int(len(self.distinct)),
            "rule": self.rule,
            "samples": self.samples[:8] or ["(no sample recorded)"],
            "states": int(self.states),
            "transitions": int(self.transitions),
            "traces_validated_against_impl": int(self.traces),
            "exhaustive": bool(self.exhaustive),
            "tlc_runs": self.tlc_runs,
            "drift": self.drift,
            "known_findings_observed": {k: v["count"] for k, v in self.known_hits.items()},
            "notes": self.notes[:40],
        }
        cov.update(self.extra)
        ev = {"property_id": self.pid, "tier": "thorough" if self.tier == "thorough" else "quick",
              "seed": int(self.seed), "level": self.level, "coverage": cov,
              "assumptions": self.assumptions, "wall_s": round(wall, 2), "violations": len(self.violations)}
        with open(os.path.join(evdir, self.pid + ".json"), "w") as fh:
            json.dump(ev, fh, indent=1, default=str)
        for d in self.drift:
            print("DRIFT: property=%s %s" % (self.pid, d))
        for k, v in self.known_hits.items():
            print("KNOWN-FINDING: property=%s %s (%s; observed %d times, first: %s)" % (
                self.pid, v["finding"]["what"], k, v["count"], _short(v["first"])))
        if self.violations:
            rd = os.path.join(os.environ.get("VERIF_REPLAY_DIR") or os.path.join(VERIF, "replays"), self.pid)
            os.makedirs(rd, exist_ok=True)
            seen = set()
            for v in self.violations:
                key = json.dumps(v["signature"], sort_keys=True, default=str)
                if key in seen:
                    continue
                seen.add(key)
                if len(seen) > 10:
                    break
                h = hashlib.sha1(json.dumps(v, sort_keys=True, default=str).encode()).hexdigest()[:12]
                path = os.path.join(rd, h + ".json")
                with open(path, "w") as fh:
                    json.dump(v, fh, indent=1, default=str)
                print("VIOLATION property=%s replay=%s" % (self.pid, path))
                print("  detail: " + _short(v["detail"], 600))
            classes = {}
            for v in self.violations:
                k = json.dumps(v["signature"], sort_keys=True, default=str)
                classes[k] = classes.get(k, 0) + 1
            for k, n in sorted(classes.items()):
                print("  class x%d: %s" % (n, k))
            print("%s: %d violation(s) in %.1fs" % (self.pid, len(self.violations), wall))
            return 1
        print("%s: held on everything explored (%d evaluations, %d distinct non-trivial, %d TLC states, %d traces) in %.1fs"
              % (self.pid, self.evaluations, len(self.distinct), self.states, self.traces, wall))
        return 0


BIG = 2000000000      # TLC integers are 32 bit and the Json module mangles larger ones: out-of-range results are clamped to +-BIG,
                      # which no oracle value equals (the specifications keep their numbers far below it)


def to_int(x):
    """int(round(x)) for a result of the code under test; non-finite or huge values become +-BIG instead of raising in the harness"""
    try:
        x = float(x)
    except Exception:
        return -BIG
    if x != x:
        return -BIG
    if x >= BIG:
        return BIG
    if x <= -BIG:
        return -BIG
    return int(round(x))


def _sanitise(o):
    if isinstance(o, bool) or o is None or isinstance(o, str):
        return o
    if isinstance(o, int):
        return max(-BIG, min(BIG, o))
    if isinstance(o, float):
        return o if (o == o and abs(o) < 1e300) else float(-BIG)
    if isinstance(o, dict):
        return {k: _sanitise(v) for k, v in o.items()}
    if isinstance(o, (list, tuple)):
        return [_sanitise(v) for v in o]
    try:
        import numpy as _np
        if isinstance(o, _np.integer):
            return max(-BIG, min(BIG, int(o)))
        if isinstance(o, _np.floating):
            return _sanitise(float(o))
        if isinstance(o, _np.bool_):
            return bool(o)
    except Exception:
        pass
    return o


def _short(s, n=300):
    s = str(s).replace("\n", " | ")
    return s if len(s) <= n else s[:n] + "..."


def main(pid, fn, level="model_checking"):
    import argparse
    ap = argparse.ArgumentParser()
    ap.add_argument("--tier", default=os.environ.get("VERIF_TIER", "quick"))
    ap.add_argument("--replay", default=None)
    a = ap.parse_args(sys.argv[2:])
    seed = int(os.environ.get("VERIF_SEED", "0") or 0)
    ctx = Ctx(pid, a.tier, seed, level)
    ctx.replay_path = a.replay
    if a.replay:
        # a replay file records the failing configuration / event / history and the schedule of one violation; the drivers are
        # deterministic in (tier, seed), so re-running the check with the recorded tier and seed meets the same input again
        try:
            rec = json.load(open(a.replay))
            print("replaying %s (tier %s, seed %s): %s" % (a.replay, rec.get("tier"), rec.get("seed"), _short(rec.get("detail"), 400)))
            ctx = Ctx(pid, rec.get("tier") or a.tier, int(rec.get("seed") or 0), level)
            ctx.replay_path = a.replay
        except Exception as ex:
            print("cannot read replay file %s: %s" % (a.replay, ex))
            return 2
    try:
        fn(ctx)
        return ctx.finish()
    except Machinery as e:
        print("MACHINERY-FAILURE property=%s: %s" % (pid, e))
        return 2
    except Exception as ex:
        # an exception that escapes a driver: if it was raised INSIDE the code under test (innermost frame in the repository tree) on an
        # input the driver considers legal, the property is broken there (the drivers catch the exceptions they expect: refusals);
        # anything raised by the harness itself is a machinery failure
        tb = traceback.extract_tb(ex.__traceback__)
        repo = os.path.realpath(os.environ.get("VERIF_REPO", "/repo"))

        def _in(path, root):
            return os.path.realpath(path).startswith(root + os.sep)
        # frames of third-party libraries (numpy, scipy, the standard library) are passed over: an exception scipy raises on what the
        # code under test hands it belongs to the code under test, one raised on what the harness hands it to the harness
        own = [f for f in tb if _in(f.filename, repo) or _in(f.filename, VERIF)]
        tb = tb[:tb.index(own[-1]) + 1] if own else tb
        inner = tb[-1].filename if tb else ""
        if _in(inner, repo) and not _in(inner, VERIF):
            where = [f for f in tb if "/harness/checks/" in f.filename]
            ctx.violation({"kind": "code-raises", "error": type(ex).__name__, "at": os.path.relpath(os.path.realpath(inner), repo)},
                          "%s: %s raised in %s:%d (%s) while the driver ran line %s" % (
                              type(ex).__name__, ex, os.path.relpath(os.path.realpath(inner), repo), tb[-1].lineno, tb[-1].name,
                              where[-1].lineno if where else "?"), {"traceback": traceback.format_exc()[-3000:]})
            return ctx.finish()
        print("MACHINERY-FAILURE property=%s: unexpected exception in the harness" % pid)
        traceback.print_exc()
        return 2
