"""Subprocess for C05: one run of the real fullSimulation.main() on a prescribed process grid, instrumented from the
harness side (no source hooks): driver statements and per-slice operator parameters are recorded by wrapping public
methods.  stdin JSON: {work, cfile, nprocs:[n1,n2], tEnd, S, folder}; stdout JSON: {ok, fault, stmts, slices, files}."""
import json
import os
import sys

HERE = os.path.dirname(os.path.dirname(os.path.abspath(__file__)))
sys.path[:0] = [os.path.join(HERE, "shim"), os.environ.get("VERIF_REPO", "/repo"), HERE]

import numpy as np   # noqa: E402

REC = {"stmts": {}, "slices": {}}


def _rank():
    from mpi4py import MPI
    return getattr(MPI._tls, "rank", 0)


def _stmt(op, g="", to=""):
    REC["stmts"].setdefault(_rank(), []).append([op, g, to])


class _Agg:
    def __init__(self, op):
        self.op, self.calls, self.notown, self.own, self.used = op, 0, 0, [], []

    def add(self, own, used):
        self.calls += 1
        if list(own) != list(used):
            if self.notown == 0:
                self.own, self.used = [int(x) for x in own], [int(x) for x in used]
            self.notown += 1

    def close(self):
        REC["slices"].setdefault(_rank(), []).append(
            {"op": self.op, "calls": self.calls, "notown": self.notown, "own": self.own, "used": self.used})


def install(nprocs):
    import threading
    from pygyro.initialisation import setups
    from pygyro.model.grid import Grid
    from pygyro.model.layout import LayoutSwapper
    from pygyro.advection import advection as adv
    from pygyro.poisson import poisson_solver as ps
    if nprocs is not None:
        setups.compute_2d_process_grid = lambda npts, size: tuple(nprocs)
    ctx = threading.local()

    def gname(g):
        if len(g.eta_grid) == 4:
            return "f"
        return "phi" if isinstance(g._layout_manager, LayoutSwapper) else "rho"

    def wrap(cls, name, fn):
        orig = getattr(cls, name)
        setattr(cls, name, fn(orig))

    wrap(Grid, "setLayout", lambda o: lambda self, new: (_stmt("setLayout", gname(self), new), o(self, new))[1])
    wrap(Grid, "saveGridValues", lambda o: lambda self: (_stmt("save", gname(self)), o(self))[1])
    wrap(Grid, "restoreGridValues", lambda o: lambda self: (_stmt("restore", gname(self)), o(self))[1])

    def slice_wrap(o):
        def f(self, *sl):
            ctx.last = (self, tuple(int(x) for x in sl))
            return o(self, *sl)
        return f
    wrap(Grid, "get2DSlice", slice_wrap)
    wrap(Grid, "get1DSlice", slice_wrap)

    def glob(grid, pos, idx):
        return int(grid.getGlobalIdxVals(pos)[idx])

    # ---- flux surface advection: step(f, cIdx, rIdx) uses tables row [rIdx, cIdx] (local r, local v of the flux_surface layout)
    def flux_grid(o):
        def f(self, grid):
            _stmt("fluxStep")
            ctx.agg = _Agg("flux")
            try:
                return o(self, grid)
            finally:
                ctx.agg.close()
                ctx.agg = None
        return f

    def flux_step(o):
        def f(self, fsl, cIdx, rIdx=0):
            agg = getattr(ctx, "agg", None)
            if agg is not None and agg.op == "flux":
                grid, (i, j) = ctx.last
                agg.add([glob(grid, 0, i), glob(grid, 1, j)], [glob(grid, 0, rIdx), glob(grid, 1, cIdx)])
            return o(self, fsl, cIdx, rIdx)
        return f
    wrap(adv.FluxSurfaceAdvection, "gridStep", flux_grid)
    wrap(adv.FluxSurfaceAdvection, "step", flux_step)

    # ---- v-parallel advection: step(f, dt, c, r): c must be the gradient at the slice's own global (r, z, theta)
    def vpar_grid(kind):
        def w(o):
            def f(self, grid, *a):
                _stmt(kind)
                ctx.agg = _Agg("vpar")
                ctx.vp = (grid, a[2] if kind == "vparStep" else a[0])
                try:
                    return o(self, grid, *a)
                finally:
                    ctx.agg.close()
                    ctx.agg = None
            return f
        return w

    def vpar_step(o):
        def f(self, fsl, dt, c, r):
            agg = getattr(ctx, "agg", None)
            if agg is not None and agg.op == "vpar":
                grid, (i, j, k) = ctx.last
                _, pg = ctx.vp
                gz, gq = glob(grid, 1, j), glob(grid, 2, k)
                own = [glob(grid, 0, i), gz, gq]
                tab = pg[i]
                used = list(own)
                if not (c == tab[gz, gq] or (c != c and tab[gz, gq] != tab[gz, gq])):
                    hits = np.argwhere(tab == c)
                    used = [own[0]] + ([int(hits[0][0]), int(hits[0][1])] if len(hits) else [-1, -1])
                if r != grid.eta_grid[0][own[0]]:
                    used[0] = int(np.argmin(np.abs(grid.eta_grid[0] - r)))
                agg.add(own, used)
            return o(self, fsl, dt, c, r)
        return f
    wrap(adv.VParallelAdvection, "gridStep", vpar_grid("vparStep"))
    wrap(adv.VParallelAdvection, "gridStepKeepGradient", vpar_grid("vparKeep"))
    wrap(adv.VParallelAdvection, "step", vpar_step)

    # ---- poloidal advection: step(f, dt, phiSpline, v): v of the slice's own v index, spline of the slice's own z plane
    def pol_grid(o):
        def f(self, grid, phi, dt):
            _stmt("polStep")
            ctx.agg = _Agg("pol")
            ctx.pol = (self, grid, phi)
            try:
                return o(self, grid, phi, dt)
            finally:
                ctx.agg.close()
                ctx.agg = None
        return f

    def pol_step(o):
        def f(self, fsl, dt, spl, v):
            agg = getattr(ctx, "agg", None)
            if agg is not None and agg.op == "pol":
                last_grid, sl = ctx.last
                _, grid, phi = ctx.pol
                if last_grid is grid and len(sl) == 2:
                    own = [glob(grid, 0, sl[0]), glob(grid, 1, sl[1])]           # global v index, global z index of the slice
                    hit = np.nonzero(grid.eta_grid[3] == v)[0]
                    uv = int(hit[0]) if len(hit) else -1
                    pos = [n for n, sp in enumerate(getattr(self, "_phiSplines", [])) if sp is spl]
                    zs = list(phi.getGlobalIdxVals(0))
                    uz = int(zs[pos[0]]) if pos and pos[0] < len(zs) else -1       # plane of phi the spline was built from
                    agg.add(own, [uv, uz])
            return o(self, fsl, dt, spl, v)
        return f
    wrap(adv.PoloidalAdvection, "gridStep", pol_grid)
    wrap(adv.PoloidalAdvection, "step", pol_step)

    # ---- parallel gradient: parallel_gradient(phi_r, i, der): i must be the local radius of the phi slice
    def pg(o):
        def f(self, phi_r, i, der):
            grid, sl = getattr(ctx, "last", (None, ()))
            a = _Agg("pargrad")
            if grid is not None and len(sl) == 1:
                a.add([glob(grid, 0, sl[0])], [glob(grid, 0, i)])
                a.close()
            return o(self, phi_r, i, der)
        return f
    wrap(adv.ParallelGradient, "parallel_gradient", pg)

    def df_init(o):
        def f(self, degree, spline, *a, **k):
            REC.setdefault("density_splines", []).append([float(spline.domain[0]), float(spline.domain[1]), int(spline.nbasis), bool(spline.periodic), int(degree)])
            return o(self, degree, spline, *a, **k)
        return f
    wrap(ps.DensityFinder, "__init__", df_init)
    wrap(ps.DensityFinder, "getPerturbedRho", lambda o: lambda self, g, r: (_stmt("density", gname(r), gname(g)), o(self, g, r))[1])
    og, of = ps.DiffEqSolver.getModes, ps.DiffEqSolver.findPotential
    ps.DiffEqSolver.getModes = staticmethod(lambda rho: (_stmt("getModes", gname(rho)), og(rho))[1])
    ps.DiffEqSolver.findPotential = staticmethod(lambda phi: (_stmt("findPotential", gname(phi)), of(phi))[1])
    orig_init = ps.QuasiNeutralitySolver.__init__

    def qn_init(o):
        def f(self, *a, **k):
            self._verif_args = (a, k)
            return o(self, *a, **k)
        return f
    wrap(ps.QuasiNeutralitySolver, "__init__", qn_init)

    def qn_solve(o):
        def f(self, p, r):
            _stmt("solve", gname(p), gname(r))
            ref = os.environ.get("VERIF_QNREF") and "qn_quadrature_dev" not in REC and _rank() == 0 and hasattr(self, "_verif_args")
            if ref:
                rho0 = np.array(r.getAllData()).copy()
            out = o(self, p, r)
            if ref:
                # the same modes solved by a second solver object that differs only in a much finer quadrature: the driver's potential
                # is the mode-by-mode solution of the stated equation up to quadrature error
                got = np.array(p.getAllData()).copy()
                a, k = self._verif_args
                a = list(a)
                a[1] = 16
                fine = ps.QuasiNeutralitySolver.__new__(ps.QuasiNeutralitySolver)
                orig_init(fine, *a, **k)
                r.getAllData()[:] = rho0
                o(fine, p, r)
                want = np.array(p.getAllData()).copy()
                REC["qn_quadrature_dev"] = [float(np.max(np.abs(got - want))), float(np.max(np.abs(want)))]
                p.getAllData()[:] = got
            return out
        return f
    wrap(ps.QuasiNeutralitySolver, "solveEquation", qn_solve)


def main():
    from harness import scenarios
    job = json.load(sys.stdin)
    install(job.get("nprocs"))
    n = int(np.prod(job["nprocs"])) if job.get("nprocs") else job["n"]
    argv = [job["tEnd"], 100000, "-f", job["folder"], "-s", job["S"], "-c", job["cfile"]]
    res = scenarios.run_driver(n, argv, job["work"], policy=job.get("policy", "asc"), seed=job.get("seed", 0), eager=job.get("eager", False))
    fault = ""
    if not res.ok:
        fault = res.describe()
        r = sorted(res.failed)[0] if res.failed else None
        if r is not None:
            fault += " || " + res.failed[r][2][-800:]
    stm = REC["stmts"]
    same = all(stm.get(r) == stm.get(0) for r in range(n))
    json.dump({"ok": bool(res.ok), "fault": fault, "stmts": stm.get(0, []), "stmts_same_on_all_ranks": same,
               "slices": [dict(s, rank=r) for r in sorted(REC["slices"]) for s in REC["slices"][r]],
               "density_splines": REC.get("density_splines", []), "qn_quadrature_dev": REC.get("qn_quadrature_dev")}, sys.stdout)


if __name__ == "__main__":
    main()
