"""Subprocess for C18/C05: runs the real fullSimulation.main() on the simulated MPI layer for a sequence of stop times
in one folder and reports what is on disk after every run.  Input (stdin JSON): {work, cfile, S, nranks: [..per run..],
stops: [tEnd,...], folder}.  Output JSON: per run {ok, fault, files, phifiles, lines}."""
import json
import os
import sys

HERE = os.path.dirname(os.path.dirname(os.path.abspath(__file__)))
sys.path[:0] = [os.path.join(HERE, "shim"), os.environ.get("VERIF_REPO", "/repo"), HERE]


def observe(folder):
    files, phis, lines = [], [], []
    if os.path.isdir(folder):
        for f in sorted(os.listdir(folder)):
            if f.startswith("grid_") and f.endswith(".h5"):
                files.append(f[5:-3])
            if f.startswith("phi_") and f.endswith(".h5"):
                phis.append(f[4:-3])
        p = os.path.join(folder, "phiDat.txt")
        if os.path.exists(p):
            for ln in open(p):
                if ln.strip():
                    lines.append(ln.split()[0])
    return files, phis, lines


def main():
    from harness import scenarios
    job = json.load(sys.stdin)
    work = job["work"]
    os.makedirs(work, exist_ok=True)
    out = []
    for i, tend in enumerate(job["stops"]):
        n = job["nranks"][i] if isinstance(job["nranks"], list) else job["nranks"]
        argv = [tend, 100000, "-f", job["folder"], "-s", job["S"]]
        if not os.path.exists(os.path.join(work, job["folder"], "initParams.json")):
            argv += ["-c", job["cfile"]]
        res = scenarios.run_driver(n, argv, work, policy=job.get("policy", "asc"), seed=job.get("seed", 0), eager=job.get("eager", False))
        files, phis, lines = observe(os.path.join(work, job["folder"]))
        fault = ""
        if not res.ok:
            fault = res.describe()
            r = sorted(res.failed)[0] if res.failed else None
            if r is not None:
                fault += " || " + res.failed[r][2][-600:]
        out.append({"tEnd": tend, "ok": bool(res.ok), "fault": fault, "files": files, "phifiles": phis, "lines": lines, "nranks": n})
        if not res.ok:
            break
    json.dump(out, sys.stdout)


if __name__ == "__main__":
    main()
