"""Shared pieces of the field-aligned operator checks (C10, C13): periodic theta spline spaces from the BSplines tables,
line data generated from integer coefficient vectors, exact evaluation of the theta-splines of all z lines."""
import copy
import math
from fractions import Fraction as Fr

import numpy as np

from harness import splineoracle as so


def theta_spaces(ctx, maxcells=9, mincells=7):
    """periodic theta spaces on uniform breakpoints 0..n (general path degree 1-3 and the uniform-cubic fast path)"""
    sp = so.run_box(ctx, 3, maxcells, maxcells, kinds=("periodic", "cu"), uniform_only=True, mincells=mincells,
                    what="periodic theta spline spaces, degree<=3, uniform breakpoints 0..n, n=%d..%d" % (mincells, maxcells))
    out = []
    for s in sp:
        if s.ncells < mincells or not s.uniform or s.br[1] != 1:
            continue
        if s.kind == "cu":
            s = copy.copy(s)
            s.cu_periodic = True
        out.append(s)
    return out


class Lines:
    """nz lines of theta data, each the nodal values of a known periodic spline (integer coefficients)."""

    def __init__(self, sp, nz, rng):
        self.sp, self.nz = sp, nz
        self.ntheta = sp.ncells
        self.h = 2 * math.pi / self.ntheta
        self.basis = sp.make(0.0, self.h)
        self.theta = np.array(self.basis.greville, dtype=float)
        self.xi = [min(max(so.to_int_coord(x, 0.0, self.h), Fr(0)), Fr(sp.br[-1])) for x in self.theta]
        self.coeffs = [sp.wrap([rng.randint(-6, 6) for _ in range(sp.nb)]) for _ in range(nz)]
        # nodal values f[theta, z]
        self.f = np.array([[float(sp.spline(self.coeffs[j], x)) for j in range(nz)] for x in self.xi])

    def eval(self, line, theta_float):
        """exact value of the theta-spline of z line `line` at the float angle theta_float (taken modulo 2 pi as a float)"""
        t = math.fmod(theta_float, 2 * math.pi)
        if t < 0:
            t += 2 * math.pi
        x = so.to_int_coord(t, 0.0, self.h)
        x = min(max(x, Fr(0)), Fr(self.sp.br[-1]))
        return self.sp.spline(self.coeffs[line % self.nz], x)


def consts(iota, R0=1.0):
    from pygyro.initialisation.constants import Constants
    c = Constants()
    c.iotaVal = iota
    c.R0 = R0
    return c
