"""Grid-level entry points of the advection operators judged slice by slice.

The single-slice `step` of every operator is decided by its own property (C10 / C11 / C12) and the parallel gradient by C13.  A
grid-level entry point (gridStep, gridStepKeepGradient, gridStep_SplinesUnchanged) must apply that step to EVERY local slice with the
parameters of the slice's OWN global coordinates.  The oracle here does exactly that, by hand, with a second operator object built
by the harness: it walks the local block through the layout's global index ranges, calls `step` with the own radius / velocity /
plane / gradient entry, and compares the whole local block with what the grid-level call left.  Run on several process grids under
random schedules; independent of any comparison between decompositions (a slip that is the same on every decomposition shows too).
"""
import numpy as np

from harness import simlayout as sl


def ops_oracle_job(comm, cfile, nprocs, seed, which, out, amp=1.0):
    from pygyro.initialisation import setups
    from pygyro.model.grid import Grid
    from pygyro.model.layout import LayoutSwapper
    from pygyro.advection.advection import FluxSurfaceAdvection, VParallelAdvection, PoloidalAdvection, ParallelGradient
    from pygyro.splines.splines import Spline2D
    from pygyro.splines.spline_interpolators import SplineInterpolator2D
    rk = comm.Get_rank()
    setups.compute_2d_process_grid = lambda npts, size: tuple(nprocs)
    res = []
    with sl.warnings.catch_warnings():
        sl.warnings.simplefilter("ignore")
        f, c, _ = setups.setupCylindricalGrid(layout="v_parallel", constantFile=cfile, comm=comm, allocateSaveMemory=True)
        npr = f.getLayout(f.currentLayout).nprocs[:2]
        grp = [{"v_parallel_2d": [0, 2, 1], "mode_solve": [1, 2, 0]}, {"v_parallel_1d": [0, 2, 1]}, {"poloidal": [2, 1, 0]}]
        rem = LayoutSwapper(comm, grp, [npr, npr[0], npr[1]], f.eta_grid[:3], "v_parallel_2d")
        phi = Grid(f.eta_grid[:3], f.getSpline(slice(0, 3)), rem, "v_parallel_2d", comm, dtype=np.complex128)
        eta = f.eta_grid
        npts = [len(e) for e in eta]
        r_, q_, z_ = np.meshgrid(eta[0], eta[1], eta[2], indexing="ij")
        R = amp * (np.random.RandomState(seed).uniform(-1.0, 1.0, npts[:3]) * 0.05 + 0.3 * np.cos(2 * q_ + 0.01 * z_) * np.sin(r_ / 3.0))
        lay = rem.getLayout("v_parallel_2d")
        phi.getAllData()[:] = np.transpose(R, (0, 2, 1))[lay.starts[0]:lay.ends[0], lay.starts[1]:lay.ends[1], lay.starts[2]:lay.ends[2]]
        dt = c.dt

        def report(stage, want):
            got = np.array(f.getAllData())
            sc = max(1e-300, float(np.max(np.abs(want)))) if want.size else 1.0
            dev = float(np.max(np.abs(got - want))) / sc if want.size else 0.0
            res.append((stage, dev, bool(np.all(np.isfinite(got)))))

        if which == "pol":
            f.setLayout("poloidal")            # (v, z, theta, r)
            phi.setLayout("poloidal")          # (z, theta, r)
            L = f.getLayout("poloidal")
            pol = PoloidalAdvection(eta, f.getSpline(slice(1, None, -1)), c)
            ref = PoloidalAdvection(eta, f.getSpline(slice(1, None, -1)), c)
            interp = SplineInterpolator2D(f.getSpline(1), f.getSpline(0))
            planes = []
            for j in range(L.shape[1]):
                S = Spline2D(f.getSpline(1), f.getSpline(0))
                interp.compute_interpolant(np.real(np.array(phi.get2DSlice(j))), S)
                planes.append(S)
            want = np.array(f.getAllData()).copy()
            for step_dt, call in ((0.5 * dt, lambda: pol.gridStep(f, phi, 0.5 * dt)), (dt, lambda: pol.gridStep_SplinesUnchanged(f, dt))):
                for i in range(L.shape[0]):
                    v = float(eta[3][L.starts[0] + i])
                    for j in range(L.shape[1]):
                        ref.step(want[i, j], step_dt, planes[j], v)
                call()
                report("poloidal gridStep" if step_dt != dt else "poloidal gridStep_SplinesUnchanged after gridStep", want)
        elif which == "vpar":
            phi.setLayout("v_parallel_1d")     # (r, z, theta), r distributed only
            L = f.getLayout("v_parallel")      # (r, z, theta, v)
            vpar = VParallelAdvection(eta, f.getSpline(3), c)
            ref = VParallelAdvection(eta, f.getSpline(3), c)
            pg = ParallelGradient(f.getSpline(1), eta, rem.getLayout("v_parallel_1d"), c)
            # the reference gradient comes from an operator built on an UNDISTRIBUTED layout (all radii on one process, the
            # configuration C13 decides on its own) and is addressed by the GLOBAL radius index of the slice
            from pygyro.model.layout import Layout
            pg2 = ParallelGradient(f.getSpline(1), eta, Layout("serial", [1], [0, 2, 1], eta[:3], [0]), c)
            pgv = np.full([L.shape[0], c.npts[2], c.npts[1]], np.nan)
            grads = []
            for i in range(L.shape[0]):
                g = np.empty([c.npts[2], c.npts[1]])
                pg2.parallel_gradient(np.real(np.array(phi.get2DSlice(i))), int(L.starts[0]) + i, g)
                grads.append(g)
            want = np.array(f.getAllData()).copy()
            for n, call in enumerate((lambda: vpar.gridStep(f, phi, pg, pgv, 0.5 * dt), lambda: vpar.gridStepKeepGradient(f, pgv, 0.5 * dt))):
                for i in range(L.shape[0]):
                    r = float(eta[0][L.starts[0] + i])
                    for j in range(L.shape[1]):
                        gz = L.starts[1] + j
                        for k in range(L.shape[2]):
                            ref.step(want[i, j, k], 0.5 * dt, float(grads[i][gz, L.starts[2] + k]), r)
                call()
                report("v-parallel gridStep" if n == 0 else "v-parallel gridStepKeepGradient after gridStep", want)
        elif which == "flux":
            f.setLayout("flux_surface")        # (r, v, theta, z)
            L = f.getLayout("flux_surface")
            flux = FluxSurfaceAdvection(eta, f.get2DSpline(), L, 0.5 * dt, c)
            ref = FluxSurfaceAdvection(eta, f.get2DSpline(), L, 0.5 * dt, c)
            want = np.array(f.getAllData()).copy()
            for i in range(L.shape[0]):
                for j in range(L.shape[1]):
                    ref.step(want[i, j], j, i)
            flux.gridStep(f)
            report("flux-surface gridStep", want)
    out[rk] = res


GRIDS = ([1, 1], [2, 1], [1, 2], [2, 2])


def check_grid_level(ctx, rng, which, npts=(6, 8, 9, 8), grids=GRIDS, consts=None, amp=1.0):
    """Run the oracle on every process grid; report violations under the calling property.  Returns the number of comparisons."""
    import os
    import shutil
    import tempfile
    from mpi4py import MPI
    from harness import scenarios
    from pygyro.initialisation import setups
    orig = setups.compute_2d_process_grid
    work = tempfile.mkdtemp(prefix="gridops_")
    n = 0
    try:
        # rotational transform 0.8, constants in general position (what the defaults make equal is not equal here)
        over = dict(kTe=0.35, CTi=0.9, CTe=1.2, deltaRTe=1.2, deltaRN0=2.5, deltaR=5.0)
        over.update(consts or {})
        cfile = scenarios.write_constants(os.path.join(work, "c.json"), npts=list(npts), iotaVal=0.8, eps=0.05, m=3, **over)
        for g in grids:
            nr = int(np.prod(g))
            out = [None] * nr
            sched = dict(policy=rng.choice(["asc", "desc", "random", "rr"]), seed=rng.randint(0, 10 ** 6))
            rs = MPI.run(nr, ops_oracle_job, args=(cfile, list(g), 7, which, out, amp), **sched)
            if not rs.ok:
                ctx.violation({"kind": "grid-level-raises", "operator": which, "error": rs.describe().split(":")[0][:60]},
                              "grid-level %s operator on process grid %s: %s" % (which, g, rs.describe()[:400]), {"nprocs": list(g), "schedule": sched})
                continue
            for rk, res in enumerate(out):
                for stage, dev, finite in res or []:
                    n += 1
                    ctx.count(("grid-level", which, tuple(g), stage, rk, amp))
                    if not (finite and dev <= 1e-12):
                        ctx.violation({"kind": "grid-level", "operator": which, "stage": stage, "multi_process": nr > 1, "weak_potential": amp != 1.0},
                                      "%s on process grid %s, rank %d: the local block deviates by %g (relative) from `step` applied to every "
                                      "slice with the parameters of its own global coordinates" % (stage, g, rk, dev),
                                      {"nprocs": list(g), "rank": rk, "stage": stage, "npts": list(npts), "schedule": sched, "potential_amplitude": amp})
    finally:
        setups.compute_2d_process_grid = orig
        shutil.rmtree(work, ignore_errors=True)
    return n
