"""Emulation of h5py's parallel ('mpio') driver on the simulated MPI layer.

`install()` patches `h5py.File`: a file opened with driver='mpio' is ONE real serial h5py.File shared by the rank
threads of the communicator.  File open, dataset creation, attribute creation and close are metadata operations that
parallel HDF5 requires to be collective; they are issued (and traced) as collectives of the simulated layer, so a rank
that skips one is detected like any other collective mismatch.  Hyperslab writes go to the shared file.
"""
import os

import h5py
from mpi4py import MPI

_real_File = h5py.File
_shared = {}


class _Attrs:
    def __init__(self, dset):
        self._d = dset

    def create(self, name, data, shape=None, dtype=None):
        p = self._d._p
        p._coll("H5Acreate", name)
        real = self._d._real
        if name not in real.attrs:
            real.attrs.create(name, data, shape, dtype)

    def __getitem__(self, k):
        return self._d._real.attrs[k]


class _Dset:
    def __init__(self, p, real):
        self._p, self._real = p, real
        self.attrs = _Attrs(self)

    def __setitem__(self, sl, val):
        self._real[sl] = val

    def __getitem__(self, sl):
        return self._real[sl]

    @property
    def shape(self):
        return self._real.shape


class _ParFile:
    def __init__(self, name, mode, comm):
        self._comm = comm._resolve() if hasattr(comm, "_resolve") else comm
        self._name = name
        inst = self._coll("H5Fopen", "%s:%s" % (os.path.basename(name), mode))
        key = (id(self._comm.job), self._comm.cid, name, inst.key[1])
        ent = _shared.get(key)
        if ent is None:
            ent = _shared[key] = {"file": _real_File(name, mode), "refs": 0}
        ent["refs"] += 1
        self._key, self._ent = key, ent

    def _coll(self, op, arg):
        return self._comm._run({"op": op, "arg": str(arg)}, None)

    def create_dataset(self, name, shape, dtype=None, **kw):
        self._coll("H5Dcreate", "%s%s" % (name, tuple(int(x) for x in shape)))
        f = self._ent["file"]
        if name not in f:
            f.create_dataset(name, shape, dtype=dtype, **kw)
        return _Dset(self, f[name])

    def __getitem__(self, name):
        return _Dset(self, self._ent["file"][name])

    def close(self):
        self._coll("H5Fclose", os.path.basename(self._name))
        self._ent["refs"] -= 1
        if self._ent["refs"] == 0:
            self._ent["file"].close()
            _shared.pop(self._key, None)


def _File(name, mode="r", driver=None, comm=None, **kw):
    if driver == "mpio":
        return _ParFile(name, mode, comm if comm is not None else MPI.COMM_WORLD)
    return _real_File(name, mode, **kw)


def install():
    h5py.File = _File
