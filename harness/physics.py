"""Independent transcriptions of the model's analytic profiles (oracles must not call the code's own entry points)."""
import math

import numpy as np


def f_eq(r, v, c):
    """Equilibrium Maxwellian n0(r) exp(-v^2 / (2 Ti(r))) / sqrt(2 pi Ti(r)) with
    n0 = CN0 exp(-kN0 dRN0 tanh((r - rp)/dRN0)),  Ti = CTi exp(-kTi dRTi tanh((r - rp)/dRTi))."""
    n0 = c.CN0 * math.exp(-c.kN0 * c.deltaRN0 * math.tanh((r - c.rp) / c.deltaRN0))
    ti = c.CTi * math.exp(-c.kTi * c.deltaRTi * math.tanh((r - c.rp) / c.deltaRTi))
    return n0 * math.exp(-0.5 * v * v / ti) / math.sqrt(2.0 * math.pi * ti)


def feq_table(rs, vs, c):
    return np.array([[f_eq(float(r), float(v), c) for v in vs] for r in rs])


def general_constants(**over):
    """Constants in general position: the defaults make CTi = CTe = 1, kTe = kTi, deltaRTe = deltaRTi, vMin = -vMax, so a dropped
    factor or a constant mistaken for its twin is invisible there."""
    from pygyro.initialisation.constants import Constants
    c = Constants()
    c.CTi, c.CTe, c.kTe, c.deltaRTe, c.deltaRTi, c.kTi = 0.8, 1.3, 0.4, 1.2, 1.6, 0.3
    c.rp = 6.5
    for k, v in over.items():
        setattr(c, k, v)
    c.getCN0()
    return c


def n0(r, c):
    return c.CN0 * math.exp(-c.kN0 * c.deltaRN0 * math.tanh((r - c.rp) / c.deltaRN0))


def n0_log_derivative(r, c):
    """n0'(r) / n0(r) = -kN0 (1 - tanh^2((r - rp)/dRN0))"""
    return -c.kN0 * (1.0 - math.tanh((r - c.rp) / c.deltaRN0) ** 2)


def t_e(r, c):
    return c.CTe * math.exp(-c.kTe * c.deltaRTe * math.tanh((r - c.rp) / c.deltaRTe))
