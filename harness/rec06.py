"""Recorder subprocess for C06: runs scenarios on the simulated MPI layer under this interpreter's PYTHONHASHSEED and
prints, per scenario, the per-rank collective programs (normalised for Collectives.tla) and communicator membership."""
import json
import os
import sys

HERE = os.path.dirname(os.path.dirname(os.path.abspath(__file__)))
sys.path[:0] = [os.path.join(HERE, "shim"), os.environ.get("VERIF_REPO", "/repo"), HERE]


def cname(cid):
    if cid[0] == "world":
        return "world"
    if cid[0] == "cart":
        return "cart(%s;%s)" % (cname(cid[1]), ",".join(map(str, cid[2])))
    if cid[0] == "sub":
        return "sub(%s;%s;%s)" % (cname(cid[1]), "".join("T" if b else "F" for b in cid[2]), ",".join(map(str, cid[3])))
    if cid[0] == "split":
        return "split(%s;%s)" % (cname(cid[1]), cid[2])
    return "%s(%s)" % (cid[0], cname(cid[1]))


def normalise(traces, members):
    progs, pos = [], []
    for tr in traces:
        p, ps = [], {}
        for c in tr:
            cn = cname(c["comm"])
            ps.setdefault(cn, []).append(len(p) + 1)
            p.append({"op": c["op"], "comm": cn, "root": int(c.get("root", -1)), "rop": c.get("rop", ""),
                      "width": int(c.get("width", 0)), "bytes": int(c.get("bytes", 0)), "rbytes": int(c.get("rbytes", 0)),
                      "arg": str(c.get("arg", "")), "rcounts": [int(x) for x in c.get("rcounts", [])], "k": len(ps[cn])})
        progs.append(p)
        pos.append(ps)
    return progs, pos


def main():
    from mpi4py import MPI
    from harness import scenarios, h5emu
    h5emu.install()
    jobs = json.load(sys.stdin)
    out = {}
    for j in jobs:
        fn = scenarios.SCENARIOS[j["scn"]]
        members = {}
        orig = MPI.Intracomm.__init__

        def init(self, job, mem, cid, _o=orig):
            _o(self, job, mem, cid)
            members[cname(cid)] = [m + 1 for m in mem]
        MPI.Intracomm.__init__ = init
        old_cwd, old_argv = os.getcwd(), sys.argv
        if j.get("cwd"):
            os.makedirs(j["cwd"], exist_ok=True)
            os.chdir(j["cwd"])
        if j.get("argv") is not None:
            sys.argv = ["fullSimulation.py"] + [str(a) for a in j["argv"]]
        import contextlib, io
        try:
          with contextlib.redirect_stdout(io.StringIO()):
            res = MPI.run(j["n"], lambda comm: fn(comm, **j["params"]), policy=j.get("policy", "asc"),
                          seed=j.get("seed", 0), eager=j.get("eager", False))
        finally:
            MPI.Intracomm.__init__ = orig
            os.chdir(old_cwd)
            sys.argv = old_argv
        progs, pos = normalise(res.traces, members)
        used = {c["comm"] for p in progs for c in p}
        vals = res.values
        try:
            json.dumps(vals)
        except TypeError:
            vals = [repr(v) for v in vals]
        out[j["id"]] = {"progs": progs, "pos": pos, "comms": {k: v for k, v in members.items() if k in used},
                        "ok": res.ok, "describe": res.describe(), "values": vals, "choices": res.choices[:2000]}
    json.dump(out, sys.stdout)


if __name__ == "__main__":
    main()
