"""Per-property interface metadata (MANIFEST.json is generated from this by tools/gen_manifest.py)."""
HOOK_COMMITS = []
NOTES = ("All verdicts are taken through the TLA+ specification suite in /verif/spec (see DESIGN.md). "
         "fix: commits in /repo and recorded findings are listed in /verif/known_findings.json.")
NOT_APPLICABLE = {}
_TB = ("Trusted: TLC 1.8 and the CommunityModules Json/IOUtils modules; the simulated mpi4py in /verif/shim "
       "(blocking-collective matching rules of the MPI standard, not an MPI implementation); numpy; the harness' "
       "projection of code state onto spec variables. Bounded: exhaustive only inside the stated boxes, seeded sampling beyond.")
CHECKS = {
 "C01": {"level": "model_checking", "design_ref": "DESIGN.md section 8, C01",
         "technique": "TLA+ spec (Layouts/LayoutAbs/LayoutBox) model-checked with TLC; every configuration TLC explored is replayed through LayoutHandler.transpose on simulated MPI ranks and the recorded calls are trace-validated (C01Trace) against the Block oracle",
         "text": "TLC enumerates (small boxes, exhaustively) and samples (wider box) handler configurations - array rank, shape, process grid incl. "
                 "leading extent 1, accepted layout sets - and checks the abstract layout model on each (blocks disjoint, cover every global "
                 "index). Each explored configuration is replayed on the real LayoutHandler for all ordered layout pairs, with/without spare "
                 "buffer, float/complex/int token payloads, sentinel-padded arrays of exactly bufferSize, random schedules and eager/rendezvous "
                 "completion; every recorded call is one Transpose action of LayoutAbs and must leave exactly Block(shape, dest ordering, grid, "
                 "rank) on every rank, complete, and leave the source bit-identical when a buffer is given. Sequences of calls on one handler "
                 "that fail although every call succeeds on a fresh handler are reported as history-dependent. TransposeMC model-checks the "
                 "implementation-shaped Transpose.tla (numpy strided views: _extract_from_source, Alltoall, _rearrange_from_buffer even/uneven "
                 "paths, local path, redirects with buffer parity) as a refinement of LayoutAbs on its own box (DestCorrect, SourceIntact, no "
                 "view out of bounds or shape mismatch). The boxes include process grids of every length the constructor accepts and over-decomposed grids (more processes than points, idle data ranks included); layout sets that are not connected are offered to the constructor and must be refused on every rank. What every rank hands to Alltoall in the first hop is compared with the Pack of Transpose.tla (wire-level binding, reported as drift). One handler also moves payloads of changing type (float, complex, integer) in one history; deterministic chain-of-five and ring-of-six layout sets give routes of four steps.",
         "note": _TB},
 "C03": {"level": "model_checking", "design_ref": "DESIGN.md section 8, C03",
         "technique": "TLA+ spec (Layouts/LayoutAbs + SwapperBoxMC candidate groupings checked by TLC); accepted groupings are driven through random transpose histories on the real LayoutSwapper and every call is trace-validated (C03Trace)",
         "text": "TLC enumerates/samples candidate groupings (a 2-D group plus groups on single process directions, grids in {1,2,3}^2 incl. "
                 "equal extents and extents 1, 3-D and 4-D shapes) and checks the abstract layout model on them. Every grouping the real "
                 "constructor accepts is driven through a random history of LayoutSwapper.transpose calls (all layout pairs reachable, "
                 "buffer given or not, float/complex/int tokens, exact-size sentinel-padded arrays, random schedules); C03Trace requires "
                 "after every call: the call completed, each rank holds Block(shape, dest ordering, dest process vector, its rank "
                 "coordinates) - hence replicas are identical and round trips reproduce the original blocks -, the ranks' coordinates "
                 "cover every block of the destination partition, the source is intact when a buffer is given, and the swapper's public "
                 "current-manager properties describe the destination layout. SwapperMC model-checks the implementation-shaped Swapper.tla "
                 "(scatter = local slice, gather = Allgather of padded blocks + per-rank unpack with the sender's own block shape, local "
                 "move only when shared communicators distribute the same dimension) as a refinement of LayoutAbs. Histories include fan-out moves (a source that a buffered transpose left intact is moved again, elsewhere) and the four-group configuration of the repository's own swapper test.",
         "note": _TB},
 "C04": {"level": "model_checking", "design_ref": "DESIGN.md section 8, C04",
         "technique": "TLA+ spec GridBuffers (three rotating buffers + reference single-array model) model-checked exhaustively with TLC; all operation paths up to a bound are generated by TLC and executed on real Grids; recorded histories are stepped through the spec's actions by trace validation (C04Trace) with every invariant evaluated at every step",
         "text": "GridBuffersMC explores the complete reachable state graph of the buffer-rotation model (with and without save memory) "
                 "and checks VisibleIsModel, SaveProtected, IndicesDistinct, SavedIffFlag on every state; TLC prints every operation "
                 "path of a bounded length (accepted and refused calls). Those paths, seeded random histories of length 10-40 and the "
                 "driver's own sequence are executed on real Grid objects on every simulated rank (8 configurations incl. process grids "
                 "(1,1),(2,1),(1,2),(1,3),(2,2),(3,2), LayoutHandler and LayoutSwapper managers, float and complex). C04Trace steps each "
                 "recorded event through the matching GridBuffers action and requires: getAllData() decodes to the Block of the reference "
                 "array's current version and layout, currentLayout agrees, written versions are fresh, calls the reference model cannot "
                 "take are refused and change nothing, well-formed calls are accepted. GridBuffersApa.tla (typed copy of the actions) carries an inductive invariant implying the five invariants; Apalache discharges Init => IndInv and IndInv /\\ Next => IndInv' at every run (unbounded in versions and history length). Configurations include over-decomposed grids. Configurations include the driver's potential grid with extents that do not divide (destination block larger than source block after a two-step change) and three-step routes on a swapper with two 2-D groups.",
         "note": _TB},
 "C06": {"level": "model_checking", "design_ref": "DESIGN.md section 8, C06",
         "technique": "TLA+ specs Collectives (per-rank programs, every interleaving of Arrive/Return incl. early return) and Routes (route search with the set-iteration choice nondeterministic) model-checked with TLC on programs recorded from the real code under different interpreter hash seeds",
         "text": "Routes.tla transcribes _makeConnectionMap with the node choice of min(set) left nondeterministic and carries two independent "
                 "runs per state: TLC checks for every connection graph, dictionary order and tie-break choice (up to 4 layouts quick, 5 thorough) "
                 "that the route and distance maps are unique, valid shortest routes, and `full` iff connected. Per-rank collective programs "
                 "(operation, communicator, root, reduction op, datatype width, byte counts) are recorded from the real code on the simulated "
                 "MPI layer for ~30 scenarios (manager construction, all transposes on 10 process grids, swapper walks, getMin/getMax in every "
                 "branch and root, figure gathers, setupSave both branches, set-up with plot-only rank, checkpoint write/read through the "
                 "collective mpio emulation, diagnostics, the real driver) in subprocesses with different PYTHONHASHSEED; rank r's program is "
                 "taken from interpreter r mod K. Collectives.tla then explores every arrival order (rendezvous and early-return completion): "
                 "InstanceUniform, EveryoneComes, no stuck state. Route maps must be identical across ranks and seeds. The simulated layer's "
                 "own run-time mismatch/deadlock detection is a second witness. FigBlock.tla models the figure gather at wire level (the code's clipping with numpy slice semantics, piece sizes, Gatherv in rank order; invariants ClipIsIntersection, GatheredIsRequest over every request range x dimension order x process grid of a box); its dump box is replayed on the real code (count mismatches are violations, differences in the gathered data are reported as drift).",
         "note": _TB + " Early return is bounded to one incomplete instance per communicator (MaxLead=1). Point-to-point code (interactive plotter) is not covered."},
 "C20": {"level": "model_checking", "design_ref": "DESIGN.md section 8, C20",
         "technique": "TLA+ spec ProcGrid (statement-by-statement state machine of the divisor search, exact ratios) model-checked with TLC for every input of a box incl. termination; every initial state replayed as a call of the real function and trace-validated (C20Trace) by the property",
         "text": "TLC explores ProcGrid for every (max1,max2,size) in the box (20x20x32 quick, 32x32x48 thorough): ValidResult, RaisesIffNone, a "
                 "step bound and <>Terminal under weak fairness. Every initial state is one call of the real "
                 "compute_2d_process_grid_from_max (under a wall-clock cap = observed termination); seeded random inputs far beyond the box "
                 "(maxima to 3000, sizes to 10^6) and grid-level calls follow. C20Trace judges each call by the property only: product = "
                 "size, both factors within their maxima, an error exactly when no divisor pair fits, every process owns a point of every "
                 "distributed dimension of the three standard layouts, and those layouts are actually built, connected and transposed on "
                 "the simulated ranks. Equality with the exact-arithmetic transcription's own choice is drift only (the code compares float ratios). The entry point that takes grid sizes is judged on every size vector of a small box (extents of 1 included) for 1-12 processes (`gridcall` events).",
         "note": _TB},
 "C17": {"level": "model_checking", "design_ref": "DESIGN.md section 8, C17",
         "technique": "TLA+ spec Reductions (integer-scaled serial quadrature of the global field, volume factor, slice min/max, slot rule) evaluated by TLC in trace validation (C17Trace) of results recorded from the real diagnostic classes on simulated MPI ranks",
         "text": "The real l2/l1/nParticles/KineticEnergy classes, DiagnosticCollector (collect, reduce) and Grid.getMin/getMax run on 1-6 "
                 "simulated ranks (8 process grids, random schedules, eager completion so that reductions fold in arrival order) with "
                 "integer-valued non-uniform r and v grids and integer fields, which makes every float result exact. C17Trace lets TLC "
                 "compute the serial trapezoid/rectangle quadrature of the global field (Reductions.Serial), the analytic volume factor, "
                 "the minimum/maximum of the global field on the requested slice, and the slot k mod saveStep, and requires equality with: "
                 "the sum over processes (one replica set for replicated layouts) in every layout, reduce()'s results on rank 0, the values "
                 "received at the drawing rank (also with a plot-only rank owning an empty block), and the column of `diagnostics` that "
                 "changed, for integer- and float-typed times. reduce() twice without a collect in between reports the same quantities; the printed diagnostics line equals the reduced quantities.",
         "note": _TB + " dq = dz = 1 and at most 6 theta points (the classes assert dq*ntheta - 2pi < 1e-7, an upper bound only)."},
 "C18": {"level": "model_checking", "design_ref": "DESIGN.md section 8, C18",
         "technique": "TLA+ spec Restart (driver bookkeeping as state transformer) model-checked with TLC over every split of K steps into runs and every save interval; real checkpoint round trips, hand-made checkpoint directories, constants permutations and sequences of real fullSimulation.main() runs are trace-validated (C18Trace) against Restart and the Block oracle",
         "text": "RestartMC explores every sequence of stop points up to K steps for save intervals 1..5 (quick) and checks that the folder after "
                 "the runs has one diagnostics line per step in order, the latest checkpoint at the final time with the right content, and "
                 "equals the unsplit run up to the extra stop-point checkpoints. C18Trace then steps real executions through the same "
                 "operators: (i) writeH5Dataset -> file -> loadFromFile / setupFromFile with token fields for every layout, float/complex, "
                 "process grids at save x load from {(1,1),(2,1),(1,2),(2,2),(1,3),(3,1),(2,3)}: the dataset must be the global field in the "
                 "recorded layout's index order and every rank must hold Block(...) bit for bit; (ii) directories with checkpoint times of "
                 "different digit counts (to 7 digits): the numerically largest / the requested time must be loaded and returned; (iii) "
                 "printed and symbolic constants files (incl. one that gives rp itself) re-read under key permutations, with ConstParse.tla "
                 "model-checking the parser's worklist over every key order (complete, order independent, an explicit rp survives the "
                 "rMin/rMax setter side effects, terminates); (iv) sequences of real driver runs on 1-4 simulated "
                 "ranks (save intervals 1-4, stop points incl. window boundaries and a no-op restart): files, diagnostics lines, no fault, "
                 "and the final distribution and potential checkpoints bit-identical to the unsplit run. ConstSetup.tla models the re-application of constants by the set-up functions (keyword overrides, rp side effect); all 16 keyword subsets are replayed into setupCylindricalGrid; every literal of a constants file must be kept (zeros included); folder names contain dots and underscores. "
                 "SaveFolder.tla models setupSave as a state machine over the working directory (automatic lowest free simulation_<k>, named folders, "
                 "existing / re-used folders, user mkdir / remove in between; invariants ParamsAreCurrent, OnlyReturnedTouched, AutoNeverClobbers, "
                 "AutoLowestFree, RanksAgree); every transition TLC finds is executed on the real function in a scratch directory on simulated ranks "
                 "with every root, and the recorded call is judged by C18Trace (`folder` events, SaveFolderOps).",
         "note": _TB + " Split and unsplit runs use equal process counts; the h5py mpio driver is emulated (shared serial file, collective metadata operations)."},
 "C05": {"level": "model_checking", "design_ref": "DESIGN.md section 8, C05",
         "technique": "TLA+ spec TimeStep (driver time loop over three grids, operator layout assertions, ParamIsOwn) model-checked with TLC; real driver runs on prescribed process grids are instrumented at public methods and trace-validated (C05Trace): statements stepped through TimeStep, every slice call judged by ParamIsOwn, assembled fields compared with the serial run",
         "text": "TimeStep.tla transcribes the Strang-split loop statement by statement (layout changes, save/restore, the operators with "
                 "their layout assertions as enabling conditions); TLC checks that no assertion can fail and the loop invariant. The real "
                 "fullSimulation.main() is then run on the simulated ranks for rotational transform 0.8 and 0 on 8 (quick) / 15 (thorough) "
                 "process grids incl. (1,n), (n,1), uneven blocks, random schedules, with compute_2d_process_grid overridden from the harness "
                 "side. Wrappers at public methods record every driver statement and, for every operator invocation, the global coordinates "
                 "of each slice and the coordinates whose parameters the slice call actually received (radial/velocity index for the "
                 "flux-surface step, the gradient table entry and radius for the v-parallel steps, velocity and potential plane for the "
                 "poloidal step, radius for the parallel gradient). C05Trace steps the statements through TimeStep, demands ParamIsOwn for "
                 "every slice call, and demands that the initial distribution (also set up in each of the three starting layouts), f and "
                 "phi after the step equal the serial run to 1e-13 relative (observed: exactly 0).",
         "note": _TB + " Operators are treated as uninterpreted: that they compute the right thing is C10-C16."},
 "C07": {"level": "model_checking", "design_ref": "DESIGN.md section 8, C07",
         "technique": "TLA+ specs Rat/Poly/BSplines: Cox-de Boor basis derived by TLC as exact piecewise polynomials for every spline space of a box, basis identities model-checked as polynomial identities; each table row is one implementation test of every evaluation entry point",
         "text": "BSplinesMC enumerates every space with degree 1-5, clamped / periodic / uniform-cubic fast-path knots and integer breakpoints in "
                 "0..7 (and degrees to 10 on few cells), derives each basis function as an exact rational polynomial per cell and checks "
                 "partition of unity, derivatives summing to zero, C^(p-1) continuity at breakpoints, non-negativity, integrals summing to the "
                 "domain length and matching of periodic ends as exact identities (valid for all x of a cell, not for samples). Every printed "
                 "table is replayed: Spline1D.eval (scalar/array), eval_vector, the nu_/cu_ kernels, BSplines[i], Spline2D.eval (scalar, grid) "
                 "and eval_vector, value and first derivatives, for all unit and seeded integer coefficient vectors, at every breakpoint, both "
                 "end points, points one ulp inside, quarter points and seeded points, under affine maps of the breakpoints, against the exact "
                 "polynomial values; fast path vs general path as functions; periodic ends (values; slopes for degree >= 2). Argument forms: output array = input array (in place), stale output arrays, the 2-D point-wise kernels called directly on mixed degrees; arrays returned earlier must stay intact through later evaluations of the same spline and the coefficients through any evaluation.",
         "note": _TB + " Float results are compared with the exact rational values by the harness (TLC has no floating point) under a bound scaled by the computed condition number of the collocation matrix; mutations of interest move results by 1e-3 or more."},
 "C08": {"level": "model_checking", "design_ref": "DESIGN.md section 8, C08",
         "technique": "TLA+ BSplines tables (TLC-derived exact basis polynomials) used as oracle: interpolants returned by the real SplineInterpolator1D/2D are evaluated exactly through the tables and must take their data / reproduce monomials",
         "text": "For every space of the BSplinesMC box the real interpolators are given data generated exactly from known coefficients, random "
                 "and badly scaled (power-of-two) data, complex data on clamped spaces and monomials up to the degree. The returned coefficients "
                 "are turned into an exact piecewise polynomial by the TLC table and must take the data at the code's own interpolation points, "
                 "reproduce the generating coefficients, equal x^k everywhere on clamped spaces, and keep wrapped periodic coefficients "
                 "consistent; 2-D tensor interpolation for all four boundary combinations. The caller's own contiguous array is handed over and must be unchanged; the interpolant is read through every evaluation form (point, array, given array, in place, an earlier result after a later evaluation, 2-D eval_vector); 2-D data scaled by 2^-30 / 2^-45 must give exactly the scaled interpolant; pairs of directions with equal sizes and different breakpoints are drawn explicitly.",
         "note": _TB + " Float results are compared with the exact rational values by the harness (TLC has no floating point) under a bound scaled by the computed condition number of the collocation matrix; mutations of interest move results by 1e-3 or more."},
 "C09": {"level": "model_checking", "design_ref": "DESIGN.md section 8, C09",
         "technique": "TLA+ BSplines tables incl. exact basis integrals (Poly antiderivatives, IntegralsSumToLength checked by TLC); quadrature weights of the real code must satisfy the exact linear identity q^T C = integrals for every space of the box",
         "text": "For every space of the BSplinesMC box (degree 1-5, clamped / periodic / fast path with 1..6 cells, uniform and non-uniform "
                 "breakpoints, two affine maps) the weights returned by get_quadrature_coefficients() must satisfy sum_i q_i N_j(x_i) = "
                 "integral of N_j for every (wrapped) basis function at the code's own interpolation points, sum to the domain length, be "
                 "equal on uniform periodic spaces, integrate the interpolant of random data exactly, and BSplines.integrals must equal the "
                 "exact integrals (periodic spaces: per periodic function). The equal-weights clause is judged on every uniform periodic space (only the library's 15-decimal rounding of the points on a 2^-30 domain is excused); the weights are applied to the array the caller holds after interpolating it.",
         "note": _TB + " Float results are compared with the exact rational values by the harness (TLC has no floating point) under a bound scaled by the computed condition number of the collocation matrix; mutations of interest move results by 1e-3 or more."},
 "C16": {"level": "model_checking", "design_ref": "DESIGN.md section 8, C16",
         "technique": "TLA+ BSplines tables (exact basis integrals) + Density spec; densities recorded from the real kernels and DensityFinder on simulated ranks are scaled to integers and compared by TLC in trace validation (C16Trace) with sum_j c_j I_j",
         "text": "v-direction spline spaces (clamped degree 1-5 and the uniform-cubic fast path) come from the BSplinesMC box with the exact "
                 "integral of every basis function. Profiles f(v) = sum_j c_j N_j(v) with integer c at every (r,theta,z) are integrated by the "
                 "real DensityFinder.getRho / getPerturbedRho (f_eq of the point's global radius added for the perturbed variant) on process "
                 "grids (1,1),(2,1),(1,2),(2,2),(3,2),(2,3), real and complex storage; the result times the common denominator must be the "
                 "integer sum_j c_j I_j computed by TLC, with zero imaginary part. Kernel-level calls with integer arrays are exact. The "
                 "equilibrium distribution must give exactly zero perturbed density on every process grid (which requires the rows of the "
                 "equilibrium table at the global radius). One finder is applied to a second pair of grids decomposed the other way round; the driver's construction of its DensityFinder is recorded (it must sit on the v spline).",
         "note": _TB},
 "C19": {"level": "translation_validation", "design_ref": "DESIGN.md section 8, C19",
         "technique": "translation validation of the pyccel/gfortran build of the working tree against the interpreted sources on cases drawn from the TLC-derived BSplines tables (also compared with the exact values) and recorded from the operator classes; numba/pythran copies loaded as Python",
         "text": "A scratch copy of /repo's working tree is built with the documented command (a failing build is a violation). Every exported "
                 "kernel of the five accelerated modules (34 functions; function-valued-argument kernels through their wrappers) is called on "
                 "~1000 argument sets: spline kernels on table rows of BSplinesMC at breakpoints, end points, one ulp inside and seeded points "
                 "(1-D results also against the exact rational values), advection kernels on arguments recorded from FluxSurface/VParallel/"
                 "PoloidalAdvection.step (three boundary modes, explicit and implicit, both edge modes, general and uniform-cubic splines), "
                 "density and initialisation kernels on seeded and boundary arguments; return values and every in-place updated array are "
                 "compared between the compiled build, the interpreted source and the numba / pythran copies (1e-11 relative; 1e-8 for the "
                 "iterative implicit step). Argument forms include aliased (output = input) and longer-output calls of the 1-D vector kernels.",
         "note": "Trusted: this pyccel 2.0.1 / gfortran tool chain run (what is validated is this build of these sources, not pyccel); numba and pythran are not installed, their copies are executed as plain Python with inert decorators; TLC for the spline tables."},
 "C10": {"level": "model_checking", "design_ref": "DESIGN.md section 8, C10",
         "technique": "TLA+ specs Stencils (degree-5 Lagrange weights as exact rationals; identities checked by TLC) and BSplines tables; every (weight row, cell shift, twist, theta space) is replayed through FluxSurfaceAdvection.step against the exact field-aligned formula",
         "text": "TLC derives the Lagrange weights L_k(alpha) for alpha in eighths and checks: weights sum to one (constants preserved), exactness to "
                 "degree 5, unit vector on a node (whole-cell displacement = exact shift). With the exact theta-spline tables of BSplinesMC the "
                 "harness evaluates f'(theta_i,z_m) = sum_k L_k(alpha) S_{(m+s_k) mod nz}(theta_i + s_k tau) exactly and compares "
                 "FluxSurfaceAdvection.step for periodic theta spaces (degree 1-3 and the fast path), nz 7-12, dt and v of either sign with "
                 "displacements to +-5.5 cells incl. whole cells, rotational transform zero and non-zero with rational b_z (r*iota/R0 in "
                 "{3/4, 4/3, 5/12}), every (r, v) table row; also the exact circular shift and preservation of constants on the code. The grid-level entry point is judged slice by slice (harness/gridops.py): gridStep on process grids (1,1),(2,1),(1,2),(2,2) against step applied by hand to every local surface with its own indices. Displacements include feet a few 1e-6 of a cell off a grid line.",
         "note": _TB + " Float results are compared with exact rational values by the harness (1e-8..1e-9 absolute on O(1) data; observed deviations ~1e-15)."},
 "C11": {"level": "model_checking", "design_ref": "DESIGN.md section 8, C11",
         "technique": "TLA+ spec Advection (foot classification, periodic image, rule per boundary mode; box-checked by TLC) + BSplines tables; every node of real VParallelAdvection.step calls is trace-validated (C11Trace): TLC decides the applicable rule from the exact foot position; grid level by slice events of instrumented driver runs",
         "text": "For clamped v spaces (degree 1-5 general path, uniform-cubic fast path) with data from integer coefficient vectors, the real "
                 "step runs for the three boundary modes and c*dt in eighths of a cell (0, fractions, multi-cell, beyond the domain width, "
                 "either sign) at several radii. Each node is one event with the exact foot position (integers in units of 1/120 cell); "
                 "C11Trace applies Advection.VParRule / WrapPeriodic and demands: the exact interpolant at the foot inside [vMin,vMax], "
                 "f_eq(r, foot) or 0 outside, the interpolant at the periodic image (position checked too). The grid-level statement is "
                 "judged on slice events recorded from gridStep / gridStepKeepGradient in instrumented driver runs on process grids (2,2) and (1,3). The grid-level steps (gridStep, gridStepKeepGradient) are judged slice by slice on four process grids against step applied by hand with the line's own gradient entry (from a second ParallelGradient object) and radius. Operators are also built without the boundary-mode argument (default = fEq); the grid-level oracle takes its gradient from an undistributed operator addressed by the global radius, and is repeated with a potential of amplitude 1e-6.",
         "note": _TB + " Float results are compared with exact rational values by the harness (1e-8..1e-9 absolute on O(1) data; observed deviations ~1e-15)."},
 "C13": {"level": "model_checking", "design_ref": "DESIGN.md section 8, C13",
         "technique": "TLA+ spec Stencils (finite-difference weights of orders 2-6 as exact rationals verified by their moment conditions, centredness, loop regimes = modulo; checked by TLC) + BSplines tables; ParallelGradient.parallel_gradient replayed against the exact formula",
         "text": "TLC derives the first-derivative weights for 3..7 points in closed form and verifies the moment conditions sum_k w_k k^m = "
                 "[m=1] (exactness on polynomials up to the order), antisymmetry/centredness for even order, and that the un-wrapped middle "
                 "regime of the scatter loop addresses the same rows as the modulo (numpy index semantics) for all nz up to 14. The harness "
                 "evaluates b_z(r)/dz * sum_k w_k S_{(j+k) mod nz}(theta_i + k tau) exactly with the theta-spline tables and compares "
                 "parallel_gradient for orders 2-6, nz from order+1 upwards, rotational transform zero / non-zero, and every local radius "
                 "index of serial and distributed layouts (radius over 2-3 processes); zero on constants on the code. Transforms include one that turns the outer stencil points by more than a full turn; before every operator another one with a different transform is built on the same theta spline, sizes and radii.",
         "note": _TB + " Float results are compared with exact rational values by the harness (1e-8..1e-9 absolute on O(1) data; observed deviations ~1e-15)." + " Constant iota only (the shipped Constants.iota); the global/local radius indexing of the precomputed theta positions is invisible then and recorded as an observation in DESIGN.md."},
 "C12": {"level": "model_checking", "design_ref": "DESIGN.md section 8, C12",
         "technique": "TLA+ spec Advection (Heun step, implicit trapezoid residual and boundary rule in exact rationals; box-checked by TLC, evaluated per node by C12Feet) + BSplines tensor tables; PoloidalAdvection.step replayed on exactly solvable families",
         "text": "AdvectionMC checks on a box that Heun differs from Euler whenever the drift is non-zero and that the boundary rules partition the "
                 "cases. For periodic-theta x clamped-r C^1 spline spaces (degree 2-3 general path, fast path) and f from integer coefficient "
                 "matrices the real step is compared node by node: constant potential = identity; phi = omega r^2/2 = rigid rotation by omega "
                 "dt/B0 (exact tensor oracle at the rotated angle); theta-only potentials: TLC (C12Feet) evaluates for every node the exact "
                 "rational Heun foot r + (g/r + [r1 inside] g/r1) m/2 and the fill rule (interpolant / 0 / f_eq(rMin) / f_eq(foot)), the "
                 "harness evaluates the exact 2-D interpolant there; implicit variant: the fixed point of the exact map when strictly inside "
                 "the domain; explicit vs implicit difference ratio ~8 on halving dt (third order); every call under a wall-clock cap "
                 "(termination). Nodes whose exact foot or predictor lies within 1e-9 of the radial boundary are excluded as the property allows. The grid-level entry points (gridStep, then gridStep_SplinesUnchanged) are judged slice by slice on four process grids against step applied by hand with the plane's own velocity and potential spline. With the operator's DEFAULT tolerance (subprocess, time limit): the implicit step terminates, is third-order close to the explicit step for dt = 2^-3..2^-8, equals the step iterated to 1e-12 on a sheared vortex, and works on a strided view of the caller's array.",
         "note": _TB + " Potentials are C^1 splines (degree >= 2): with degree-1 potentials the drift is discontinuous at every node and the implicit fixed point is not well defined (observed: the iteration can cycle for ever there; recorded in DESIGN.md as outside the quantifier). General smooth potentials are reached only through the order test."},
 "C14": {"level": "model_checking", "design_ref": "DESIGN.md section 8, C14",
         "technique": "TLA+ spec Galerkin (mode table, unknown ranges, exact strong-form left-hand side of manufactured spline solutions as polynomials per cell, evaluated by TLC per query) + BSplines tables; the real DiffEqSolver must return the manufactured spline",
         "text": "For clamped radial spaces (degree 2-5 and uniform-cubic input, 2-8 equal cells), every mode class (0, +-1, +-2, Nyquist; even and "
                 "odd theta counts), Dirichlet/Neumann per side, A in {-1,-2} and polynomial B, C, D with small integer coefficients, TLC "
                 "(GalerkinMC) computes for a manufactured spline phi - each basis function of the unknown range and seeded combinations, "
                 "satisfying the mode's boundary conditions - the exact piecewise-polynomial A phi'' + B phi' + C phi - m^2 D phi. Fed as "
                 "right-hand side to the real solveEquationForFunction (quadrature exact for these integrands) the solver must return phi at "
                 "the radial nodes (observed deviation 1e-13), which pins the assembled operator on that range. On the code: solveEquation "
                 "with nodal values of a spline rho equals the function path with E*rho, linearity, zeros at Dirichlet ends, mode "
                 "independence, refusal of Neumann/Neumann with C = 0 and acceptance with C != 0. A second oracle: harness/weakform.py assembles the weak form exactly (rational arithmetic on the basis-polynomial tables printed by BSplinesMC) and solves it exactly, for right-hand sides that are not manufactured, at exactly the quadrature exactness the integrands need (even); solveEquation is also run with the modes distributed over processes and compared with the serial result; Neumann/Neumann refusal is tested per mode index, for D = 0 and for a C that vanishes on part of the domain. Complex linearity solve(i rho) = i solve(rho); every mode number of mode counts that are no power of two is requested Neumann in turn and must not be pinned; a Neumann/Neumann mode with C = 2e-9 is accepted.",
         "note": _TB + " Degree 1 is not covered (phi'' carries point masses); non-polynomial coefficient functions are reached through C15's relations only; the assembly assumes equal-width cells (non-uniform radial breakpoints give wrong results - recorded in DESIGN.md as outside the quantifier)."},
 "C15": {"level": "model_checking", "design_ref": "DESIGN.md section 8, C15",
         "technique": "TLA+ spec Galerkin (FFT-order mode table and m^2, checked by TLC for all theta counts to 16; forcing of polynomial manufactured potentials with the spec's m^2) + trace validation (C15Trace) of the distributed pipeline on simulated process grids, of relations between QuasiNeutralitySolver variants and of an equilibrium run of the real driver",
         "text": "TLC checks the mode table (range of mode numbers, m^2 symmetric under I -> n-I, m = 0 only at index 0) for 1..16 theta points and "
                 "computes, with m^2 taken from that table, the exact forcing of polynomial potentials phi(r) (Dirichlet/Dirichlet, or Neumann "
                 "at the inner radius for m = 0) in a degree-5 radial space. Densities g(r) cos/sin(m0 theta) zeta(z) are pushed through "
                 "getModes -> setLayout(mode_solve) -> solveEquation -> setLayout(v_parallel_2d) -> findPotential on process grids "
                 "(1,1),(2,1),(1,2),(2,2),(3,2) for 6/7/8 theta points and m0 in {0,1,2,Nyquist}: the transform round trip must be the "
                 "identity, the non-zero mode indices must be exactly those with mode number +-m0 in the spec's table, the potential must "
                 "equal phi(r) trig(m0 theta) zeta(z) and be real. The real QuasiNeutralitySolver (chi 0/1, adiabatic/kinetic) is tied by "
                 "relations for every driven mode (response only in that mode, I and n-I share the operator, Dirichlet/Neumann pattern, "
                 "non-zero modes independent of chi, m = 0 with chi = 1 drops the adiabatic term, linearity). The real driver with eps = 0: "
                 "density and potential exactly zero at t = 0, f unchanged by a full step to 1e-11 relative. The QuasiNeutralitySolver operator is pinned to the stated equation through independently written coefficient functions (constants in general position); its pipeline runs on five process grids against the serial result; the equilibrium runs through the driver on 2 and 4 ranks; the driver's quasi-neutrality statements (operands included) are validated against TimeStep.tla. Solvers with B = 1.7 in both electron models; inside a driver run the first solve is repeated by a second solver object that differs only in a much finer quadrature (relative deviation <= 2e-4; unmodified 3e-6).",
         "note": _TB + " The numerical value of the quasi-neutral response for the tanh profiles is not compared with an independent discretisation (only through relations and, for polynomial coefficients, C14)."},
 "C02": {"level": "model_checking", "design_ref": "DESIGN.md section 8, C02",
         "technique": "TLA+ spec (Partition/Layouts) model-checked with TLC + trace validation of tables, Layout objects and Grid accessors recorded from the real classes",
         "text": "TLC checks the transcribed split formula against the formula-independent statement (exact tiling in rank order, "
                 "each index owned once, lengths differ by <= 1, max block) for every 1<=p<=n<=NMax; every table / Layout object / "
                 "accessor result / buffer size recorded from the real classes is then validated by the trace specification C02Trace "
                 "against those same predicates, clause by clause. Property-level predicates decide; equality with the transcribed "
                 "formula is reported as drift only. PartitionApa.tla states the split formula and its per-block consequences for all n >= p >= 1 over unbounded integers; Apalache discharges it at every run. The layouts of a layout swapper must tile the array once per replica.",
         "note": _TB},
}
