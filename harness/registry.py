"""Per-property interface metadata (MANIFEST.json is generated from this by tools/gen_manifest.py)."""
HOOK_COMMITS = []
NOTES = ("All verdicts are taken through the TLA+ specification suite in /verif/spec (see DESIGN.md). "
         "fix: commits in /repo and recorded findings are listed in /verif/known_findings.json.")
NOT_APPLICABLE = {}
_TB = ("Trusted: TLC 1.8 and the CommunityModules Json/IOUtils modules; the simulated mpi4py in /verif/shim "
       "(blocking-collective matching rules of the MPI standard, not an MPI implementation); numpy; the harness' "
       "projection of code state onto spec variables. Bounded: exhaustive only inside the stated boxes, seeded sampling beyond.")
CHECKS = {
 "C02": {"level": "model_checking", "design_ref": "DESIGN.md section 8, C02",
         "technique": "TLA+ spec (Partition/Layouts) model-checked with TLC + trace validation of tables, Layout objects and Grid accessors recorded from the real classes",
         "text": "TLC checks the transcribed split formula against the formula-independent statement (exact tiling in rank order, "
                 "each index owned once, lengths differ by <= 1, max block) for every 1<=p<=n<=NMax; every table / Layout object / "
                 "accessor result / buffer size recorded from the real classes is then validated by the trace specification C02Trace "
                 "against those same predicates, clause by clause. Property-level predicates decide; equality with the transcribed "
                 "formula is reported as drift only.",
         "note": _TB},
}
