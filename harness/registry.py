"""Per-property interface metadata (MANIFEST.json is generated from this by tools/gen_manifest.py)."""
HOOK_COMMITS = []
NOTES = ("All verdicts are taken through the TLA+ specification suite in /verif/spec (see DESIGN.md). "
         "fix: commits in /repo and recorded findings are listed in /verif/known_findings.json.")
NOT_APPLICABLE = {}
_TB = ("Trusted: TLC 1.8 and the CommunityModules Json/IOUtils modules; the simulated mpi4py in /verif/shim "
       "(blocking-collective matching rules of the MPI standard, not an MPI implementation); numpy; the harness' "
       "projection of code state onto spec variables. Bounded: exhaustive only inside the stated boxes, seeded sampling beyond.")
CHECKS = {
 "C01": {"level": "model_checking", "design_ref": "DESIGN.md section 8, C01",
         "technique": "TLA+ spec (Layouts/LayoutAbs/LayoutBox) model-checked with TLC; every configuration TLC explored is replayed through LayoutHandler.transpose on simulated MPI ranks and the recorded calls are trace-validated (C01Trace) against the Block oracle",
         "text": "TLC enumerates (small boxes, exhaustively) and samples (wider box) handler configurations - array rank, shape, process grid incl. "
                 "leading extent 1, accepted layout sets - and checks the abstract layout model on each (blocks disjoint, cover every global "
                 "index). Each explored configuration is replayed on the real LayoutHandler for all ordered layout pairs, with/without spare "
                 "buffer, float/complex/int token payloads, sentinel-padded arrays of exactly bufferSize, random schedules and eager/rendezvous "
                 "completion; every recorded call is one Transpose action of LayoutAbs and must leave exactly Block(shape, dest ordering, grid, "
                 "rank) on every rank, complete, and leave the source bit-identical when a buffer is given.",
         "note": _TB},
 "C03": {"level": "model_checking", "design_ref": "DESIGN.md section 8, C03",
         "technique": "TLA+ spec (Layouts/LayoutAbs + SwapperBoxMC candidate groupings checked by TLC); accepted groupings are driven through random transpose histories on the real LayoutSwapper and every call is trace-validated (C03Trace)",
         "text": "TLC enumerates/samples candidate groupings (a 2-D group plus groups on single process directions, grids in {1,2,3}^2 incl. "
                 "equal extents and extents 1, 3-D and 4-D shapes) and checks the abstract layout model on them. Every grouping the real "
                 "constructor accepts is driven through a random history of LayoutSwapper.transpose calls (all layout pairs reachable, "
                 "buffer given or not, float/complex/int tokens, exact-size sentinel-padded arrays, random schedules); C03Trace requires "
                 "after every call: the call completed, each rank holds Block(shape, dest ordering, dest process vector, its rank "
                 "coordinates) - hence replicas are identical and round trips reproduce the original blocks -, the ranks' coordinates "
                 "cover every block of the destination partition, the source is intact when a buffer is given, and the swapper's public "
                 "current-manager properties describe the destination layout.",
         "note": _TB},
 "C02": {"level": "model_checking", "design_ref": "DESIGN.md section 8, C02",
         "technique": "TLA+ spec (Partition/Layouts) model-checked with TLC + trace validation of tables, Layout objects and Grid accessors recorded from the real classes",
         "text": "TLC checks the transcribed split formula against the formula-independent statement (exact tiling in rank order, "
                 "each index owned once, lengths differ by <= 1, max block) for every 1<=p<=n<=NMax; every table / Layout object / "
                 "accessor result / buffer size recorded from the real classes is then validated by the trace specification C02Trace "
                 "against those same predicates, clause by clause. Property-level predicates decide; equality with the transcribed "
                 "formula is reported as drift only.",
         "note": _TB},
}
