"""Scenarios of the real code run on the simulated MPI layer; used to record per-rank collective programs (C06)
and as drivers elsewhere.  Every scenario is `fn(comm, **params)`; all ranks call it with the same params."""
import contextlib
import io
import json
import os
import sys
import warnings

import numpy as np
from mpi4py import MPI

from harness import simlayout as sl

STD = {"flux_surface": [0, 3, 1, 2], "v_parallel": [0, 2, 1, 3], "poloidal": [3, 2, 1, 0]}

CONSTANTS = {
    "B0": 1.0, "R0": 239.8081535, "rMin": 0.1, "rMax": 14.5, "zMin": 0.0, "zMax": "R0*2*pi",
    "vMax": 7.32, "vMin": "-vMax", "eps": 1e-2, "eps0": 8.854187817e-12, "kN0": 0.055, "kTi": 0.27586,
    "kTe": "kTi", "deltaRTi": 1.45, "deltaRTe": "deltaRTi", "deltaRN0": "2.0*deltaRTe", "deltaR": "4.0*deltaRN0/deltaRTi",
    "CTi": 1.0, "CTe": "CTi", "m": 2, "n": 1, "iotaVal": 0.8, "npts": [6, 8, 8, 8], "dt": 2}


def write_constants(path, **over):
    c = dict(CONSTANTS)
    c.update(over)
    with open(path, "w") as fh:
        json.dump(c, fh)
    return path


def scn_handler(comm, shape, nprocs, layouts, usebuf=True):
    h, eta = sl.handler_job(comm, shape, nprocs, layouts)
    G = sl.tokens(shape)
    names = list(layouts)
    with warnings.catch_warnings():
        warnings.simplefilter("ignore")
        for a in names:
            for b in names:
                for ub in ((False, True) if usebuf else (False,)):
                    x, y = sl.fresh(h.bufferSize, float), sl.fresh(h.bufferSize, float)
                    z = sl.fresh(h.bufferSize, float) if ub else None
                    la = h.getLayout(a)
                    x[:la.size] = sl.local_block(G, la).ravel()
                    h.transpose(x, y, a, b, z)
    return {n: {m: list(r) for m, r in d.items()} for n, d in getattr(h, "_route_map", {}).items()}


def driver_swapper(comm, shape, nprocs):
    from pygyro.model.layout import LayoutSwapper
    eta = sl.make_eta(shape)
    groups = [{"v_parallel_2d": [0, 2, 1], "mode_solve": [1, 2, 0]}, {"v_parallel_1d": [0, 2, 1]}, {"poloidal": [2, 1, 0]}]
    return LayoutSwapper(comm, groups, [list(nprocs), nprocs[0], nprocs[1]], eta, "mode_solve"), eta


def scn_swapper(comm, shape, nprocs, walk):
    sw, eta = driver_swapper(comm, shape, nprocs)
    G = sl.tokens(shape, complex)
    a, b, c = (sl.fresh(sw.bufferSize, complex) for _ in range(3))
    cur = "mode_solve"
    lc = sw.getLayout(cur)
    a[:lc.size] = sl.local_block(G, lc).ravel()
    with warnings.catch_warnings():
        warnings.simplefilter("ignore")
        for (dst, ub) in walk:
            sw.transpose(a, b, cur, dst, c if ub else None)
            a, b = b, a
            cur = dst
    return {n: {m: list(r) for m, r in d.items()} for n, d in getattr(sw, "_route_map", {}).items()}


GROUPS4 = [{"flux_surface2": [0, 3, 1, 2], "v_parallel": [0, 2, 1, 3], "poloidal": [3, 2, 1, 0]},
           {"flux_surface1": [0, 3, 1, 2], "z_surface": [2, 3, 1, 0], "vr_contig1": [2, 1, 3, 0]}]


def scn_swapper4(comm, shape, nprocs, walk):
    """the 4-D grouping of the repository's own test_LayoutSwapper: two groups of three layouts, on (n1, n2) and on n1"""
    from pygyro.model.layout import LayoutSwapper
    eta = sl.make_eta(shape)
    sw = LayoutSwapper(comm, GROUPS4, [list(nprocs), nprocs[0]], eta, "flux_surface2")
    G = sl.tokens(shape, float)
    a, b, c = (sl.fresh(sw.bufferSize, float) for _ in range(3))
    cur = "flux_surface2"
    lc = sw.getLayout(cur)
    a[:lc.size] = sl.local_block(G, lc).ravel()
    bad = 0
    with warnings.catch_warnings():
        warnings.simplefilter("ignore")
        for (dst, ub) in walk:
            sw.transpose(a, b, cur, dst, c if ub else None)
            a, b = b, a
            cur = dst
            ld = sw.getLayout(cur)
            bad += int(not (a[:ld.size] == sl.local_block(G, ld).ravel()).all())
    return bad


def scn_minmax(comm, shape, nprocs, root=0):
    from pygyro.model.grid import Grid
    h, eta = sl.handler_job(comm, shape, nprocs, STD)
    out = []
    for name in STD:
        g = Grid(eta, [None] * 4, h, name, comm)
        lay = g.getLayout(name)
        g.getAllData()[:] = sl.local_block(sl.tokens(shape), lay)
        out.append((g.getMin(root), g.getMax(root)))
        for ax in range(4):
            for fix in sorted({0, shape[ax] // 2, shape[ax] - 1}):
                out.append((g.getMin(root, ax, fix), g.getMax(root, ax, fix)))
        out.append((g.getMin(root, [0, 3], [shape[0] - 1, 0]), g.getMax(root, [0, 3], [shape[0] - 1, 0])))
    return out


def scn_figblock(comm, shape, nprocs, root=0, cplx=False):
    from pygyro.model.grid import Grid
    h, eta = sl.handler_job(comm, shape, nprocs, STD)
    out = []
    for name in STD:
        g = Grid(eta, [None] * 4, h, name, comm, dtype=np.complex128 if cplx else float)
        lay = g.getLayout(name)
        g.getAllData()[:] = sl.local_block(sl.tokens(shape, complex if cplx else float), lay)
        for d in ({0: 1}, {3: shape[3] - 1, 2: 0}, {1: range(1, 3)}, {}, {1: range(3, 3)}, {0: shape[0] + 1}):      # the last two: empty on every rank
            r = g.getBlockFromDict(dict(d), comm, root)
            out.append(None if r is None else [int(x) for x in r[3][:4]])
    return out


def scn_setupsave(comm, given):
    """(the caller sets the process-wide working directory)"""
    from pygyro.utilities.savingTools import setupSave
    from pygyro.initialisation.constants import Constants
    c = Constants()
    a = setupSave(c, "given_dir" if given else None, comm, 0)
    b = setupSave(c, "given_dir" if given else None, comm, comm.Get_size() - 1)
    return [a, b]


def scn_setup(comm, cfile, layout, plot, folder=None, draw=0):
    from pygyro.initialisation.setups import setupCylindricalGrid
    with warnings.catch_warnings():
        warnings.simplefilter("ignore")
        grid, constants, t = setupCylindricalGrid(layout=layout, constantFile=cfile, comm=comm, plotThread=plot,
                                                  drawRank=draw, allocateSaveMemory=True)
        mn, mx = grid.getMin(draw), grid.getMax(draw)
        m2 = grid.getMin(draw, 0, 1)
        for l2 in ("flux_surface", "poloidal", "v_parallel"):
            grid.setLayout(l2)
        if folder is not None and not plot:
            os.makedirs(folder, exist_ok=True)
            grid.writeH5Dataset(folder, 0)
            grid.writeH5Dataset(folder, 10)
            grid.loadFromFile(folder)
            grid.loadFromFile(folder, 0)
    return [mn, mx, m2]


def scn_restart(comm, cfile, folder, plot=False, draw=0, saved=True):
    """write a checkpoint with all ranks, then the restart set-up (setupFromFile) with / without a plot-only rank, then layout changes"""
    import shutil
    from pygyro.initialisation.setups import setupCylindricalGrid, setupFromFile
    with warnings.catch_warnings():
        warnings.simplefilter("ignore")
        g0, c0, _ = setupCylindricalGrid(layout="v_parallel", constantFile=cfile, comm=comm)
        if comm.Get_rank() == 0:
            os.makedirs(folder, exist_ok=True)
            shutil.copy(cfile, os.path.join(folder, "initParams.json"))
        comm.Barrier()
        if saved:
            g0.writeH5Dataset(folder, 0)
            comm.Barrier()
            grid, constants, t = setupFromFile(folder, comm=comm, plotThread=plot, drawRank=draw, allocateSaveMemory=True)
        else:           # a folder that holds the parameter file only: fresh start in the requested layout
            grid, constants, t = setupFromFile(folder, comm=comm, plotThread=plot, drawRank=draw, allocateSaveMemory=True, layout="v_parallel")
        for l2 in ("flux_surface", "poloidal", "v_parallel"):
            grid.setLayout(l2)
        return [float(t), grid.getMax(draw), grid.getMin(draw), grid.getMax(draw, 0, 1)]


def scn_diag(comm, cfile, savestep=3):
    """Driver-like set-up of f and phi, then collect / reduce of the diagnostics."""
    from pygyro.initialisation.setups import setupCylindricalGrid
    from pygyro.model.grid import Grid
    from pygyro.model.layout import LayoutSwapper
    from pygyro.diagnostics.diagnostic_collector import DiagnosticCollector
    with warnings.catch_warnings():
        warnings.simplefilter("ignore")
        f, constants, t = setupCylindricalGrid(layout="v_parallel", constantFile=cfile, comm=comm, allocateSaveMemory=True)
        nprocs = f.getLayout(f.currentLayout).nprocs[:2]
        groups = [{"v_parallel_2d": [0, 2, 1], "mode_solve": [1, 2, 0]}, {"v_parallel_1d": [0, 2, 1]}, {"poloidal": [2, 1, 0]}]
        rem = LayoutSwapper(comm, groups, [nprocs, nprocs[0], nprocs[1]], f.eta_grid[:3], "v_parallel_2d")
        phi = Grid(f.eta_grid[:3], f.getSpline(slice(0, 3)), rem, "v_parallel_2d", comm, dtype=np.complex128)
        phi.getAllData()[:] = 1.0 + comm.Get_rank()
        d = DiagnosticCollector(comm, savestep, constants.dt, f, phi)
        for k in range(savestep):
            d.collect(f, phi, k * constants.dt)
        d.reduce()
        return str(d) if comm.Get_rank() == 0 else None


def scn_driver(comm, argv=None, cwd=None):
    """The real fullSimulation.main(); all ranks share the process-wide cwd and argv (as set by the caller)."""
    import fullSimulation
    with warnings.catch_warnings():
        warnings.simplefilter("ignore")
        fullSimulation.main()
    return True


def run_driver(n, argv, cwd, **kw):
    """Run fullSimulation.main() on n simulated ranks in directory cwd; returns the shim Result."""
    from harness import h5emu
    h5emu.install()
    os.makedirs(cwd, exist_ok=True)
    old = os.getcwd()
    oldargv = sys.argv
    os.chdir(cwd)
    sys.argv = ["fullSimulation.py"] + [str(a) for a in argv]
    try:
        with contextlib.redirect_stdout(io.StringIO()):
            return MPI.run(n, scn_driver, args=(argv, cwd), **kw)
    finally:
        os.chdir(old)
        sys.argv = oldargv


SCENARIOS = {f[4:]: g for f, g in list(globals().items()) if f.startswith("scn_")}
