"""vcheck selftest [-j N] [name ...]  -- regression test of the machinery itself (not part of any property's verdict).

Every independently produced breaking change stored under /verif/seeded/<name>/ (patch.diff + meta.json) is applied to a scratch
worktree of /repo's HEAD (outside /repo and /verif, removed afterwards) and the quick check(s) that detected it when it was
evaluated are run against that worktree (VERIF_REPO); each must still report a violation.  A patch that no longer applies at
HEAD (a later fix: commit rewrote the same lines) is reported as such and skipped.  Exit 0 iff no stored change went undetected.
"""
import concurrent.futures
import json
import os
import shutil
import subprocess
import sys
import tempfile

V = os.path.dirname(os.path.dirname(os.path.abspath(__file__)))


def one(name):
    d = os.path.join(V, "seeded", name)
    meta = json.load(open(os.path.join(d, "meta.json")))
    if meta.get("not_a_violation"):
        return name, "not-a-violation (%s)" % meta["not_a_violation"][:60], []
    checks = meta.get("detected_by") or [meta["property"]]
    wt = tempfile.mkdtemp(prefix="selftest_")
    os.rmdir(wt)
    import time
    for attempt in range(8):            # concurrent `git worktree add` calls contend for a lock
        if subprocess.run(["git", "-C", "/repo", "worktree", "add", "-q", "--detach", wt, "HEAD"], capture_output=True).returncode == 0:
            break
        time.sleep(1.5 + attempt)
    else:
        return name, "cannot-create-worktree", []
    evd = tempfile.mkdtemp(prefix="selftest_ev_")
    try:
        ap = subprocess.run(["git", "-C", wt, "apply", os.path.join(d, "patch.diff")], capture_output=True, text=True)
        if ap.returncode != 0:
            return name, "does-not-apply-at-HEAD", []
        out = []
        for c in checks:
            p = subprocess.run([os.path.join(V, "vcheck"), c, "--tier", "quick"], cwd=V, capture_output=True, text=True, timeout=7200,
                               env=dict(os.environ, VERIF_REPO=wt, VERIF_EVIDENCE_DIR=evd, VERIF_REPLAY_DIR=os.path.join(evd, "replays")))
            out.append((c, p.returncode))
        return name, ("detected" if any(rc == 1 for _, rc in out) else "MISSED"), out
    finally:
        subprocess.run(["git", "-C", "/repo", "worktree", "remove", "--force", wt])
        shutil.rmtree(evd, ignore_errors=True)


def main(argv):
    jobs = 3
    if argv[:1] == ["-j"]:
        jobs, argv = int(argv[1]), argv[2:]
    names = argv or sorted(n for n in os.listdir(os.path.join(V, "seeded")) if os.path.exists(os.path.join(V, "seeded", n, "meta.json")))
    missed = 0
    with concurrent.futures.ThreadPoolExecutor(max_workers=jobs) as ex:
        for name, verdict, out in ex.map(one, names):
            print("%-12s %s %s" % (name, verdict, out), flush=True)
            missed += verdict == "MISSED"
    print("selftest: %d stored changes, %d missed" % (len(names), missed))
    return 1 if missed else 0


if __name__ == "__main__":
    sys.exit(main(sys.argv[1:]))
