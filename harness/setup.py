"""setup_cmd: verify the tool chain offline (java, TLC jar, SANY parses every module, imports)."""
import glob
import os
import subprocess
import sys
from harness import tlc


def main():
    ok = True
    mods = sorted(glob.glob(os.path.join(tlc.SPEC_DIR, "*.tla")))
    for m in mods:
        name = os.path.basename(m)[:-4]
        good, out = tlc.sany(name)
        if not good:
            ok = False
            print("SANY failed on", name)
            print(out[-2000:])
    try:
        import numpy, scipy, h5py  # noqa
        from mpi4py import MPI
        assert hasattr(MPI, "run"), "the simulated mpi4py is not first on sys.path"
        import pygyro.model.layout  # noqa
    except Exception as e:
        ok = False
        print("import check failed:", e)
    print("setup: %d TLA+ modules parsed, %s" % (len(mods), "ok" if ok else "FAILED"))
    return 0 if ok else 1
