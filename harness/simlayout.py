"""Helpers to drive pygyro.model.layout / grid on the simulated MPI layer with token payloads."""
import itertools
import warnings

import numpy as np
from mpi4py import MPI

SENT = -7.0   # sentinel for padding


def make_eta(shape):
    """eta[d][g] = 1000*(d+1)+g : a coordinate value names its dimension and global index."""
    return [np.array([1000.0 * (d + 1) + g for g in range(n)]) for d, n in enumerate(shape)]


def tokens(shape, dtype=float, version=0):
    """Global array whose entry at global index g is its row-major linear index (+ version offset)."""
    n = int(np.prod(shape))
    base = np.arange(n, dtype=np.int64) + version * 1000003
    if dtype in (complex, np.complex128):
        arr = base.astype(float) + 1j * (base.astype(float) * 2 + 0.5)
    elif dtype in (int, np.int64):
        arr = base.copy()
    else:
        arr = base.astype(float)
    return arr.reshape(shape)


def decode(arr, dtype=float):
    """Token view of an array of payloads: int64 tokens, or -1 where the payload is not a token."""
    a = np.asarray(arr).ravel()
    if a.dtype == np.complex128:
        re, im = a.real, a.imag
        ok = (im == re * 2 + 0.5) & (re == np.round(re))
        return np.where(ok, re, -1).astype(np.int64)
    if a.dtype == np.int64:
        return a.astype(np.int64)
    ok = np.isfinite(a) & (a == np.round(a)) & (a >= 0)
    return np.where(ok, a, -1).astype(np.int64)


def local_block(G, layout):
    """The block of global array G that `layout` (a pygyro Layout) assigns to this rank, C order of the layout."""
    sl = tuple(slice(s, e) for s, e in zip(layout.starts, layout.ends))
    return np.transpose(G, layout.dims_order)[sl]


def sentinel(dtype):
    if dtype in (complex, np.complex128):
        return SENT + 1j * SENT
    if dtype in (int, np.int64):
        return -7
    return SENT


def fresh(size, dtype):
    return np.full(int(size), sentinel(dtype), dtype=dtype)


def all_perms(nd):
    return [list(p) for p in itertools.permutations(range(nd))]


def quiet():
    c = warnings.catch_warnings()
    c.__enter__()
    warnings.simplefilter("ignore")
    return c


def handler_job(comm, shape, nprocs, layouts):
    from pygyro.model.layout import getLayoutHandler
    eta = make_eta(shape)
    return getLayoutHandler(comm, layouts, list(nprocs), eta), eta


def transpose_job(comm, shape, nprocs, layouts, pairs, usebuf, dtype):
    """Run the given ordered (src,dst) pairs through LayoutHandler.transpose with arrays of exactly
    bufferSize; returns per pair the decoded destination block, source-intact flag, and errors."""
    h, eta = handler_job(comm, shape, nprocs, layouts)
    mixed = isinstance(dtype, str) and dtype == "mixed"      # ONE handler moves payloads of changing type (float, complex, integer)
    kinds = [float, complex, np.int64]
    if not mixed:
        G = tokens(shape, dtype)
    out = []
    for k, (src, dst) in enumerate(pairs):
        if mixed:
            dtype = kinds[k % 3]
            G = tokens(shape, dtype)
        ls, ld = h.getLayout(src), h.getLayout(dst)
        a = fresh(h.bufferSize, dtype)
        b = fresh(h.bufferSize, dtype)
        c = fresh(h.bufferSize, dtype) if usebuf else None
        a[:ls.size] = local_block(G, ls).ravel()
        a0 = a.copy()
        with warnings.catch_warnings():
            warnings.simplefilter("ignore")
            h.transpose(a, b, src, dst, c)
        rec = {"src": src, "dst": dst, "coords": [int(x) for x in h.mpiCoords],
               "block": decode(b[:ld.size]).tolist(),
               "shape": [int(x) for x in ld.shape],
               "src_intact": bool((a[:ls.size] == a0[:ls.size]).all()) if usebuf else None,
               "route": list(h._route_map[src][dst]) if src != dst and hasattr(h, "_route_map") else []}
        out.append(rec)
    return out
