"""Exact evaluation of the piecewise-polynomial B-spline tables printed by BSplinesMC (the oracle of C07-C16).

The table is TLC's output; this module only evaluates those polynomials exactly (fractions.Fraction) at arbitrary
points - including floats converted exactly - and maps integer breakpoints affinely to real ones."""
from fractions import Fraction as Fr

import numpy as np

BOX_INV = ("INVARIANT IPartitionOfUnity\nINVARIANT IDerivativesSumToZero\nINVARIANT ISmooth\nINVARIANT ISmoothClamped\n"
           "INVARIANT INonNegative\nINVARIANT IIntegrals\nINVARIANT IPeriodic\nINVARIANT ICuIsPeriodicExtension\nINVARIANT Dump\n"
           "CHECK_DEADLOCK FALSE\n")


def box_cfg(maxdeg, maxcells, maxbreak, kinds=("clamped", "periodic", "cu"), uniform_only=False, mincells=1):
    return ("INIT Init\nNEXT Next\nCONSTANTS MaxDeg = %d MaxCells = %d MaxBreak = %d Kinds = {%s} UniformOnly = %s MinCells = %d\n" % (
        maxdeg, maxcells, maxbreak, ",".join('"%s"' % k for k in kinds), "TRUE" if uniform_only else "FALSE", mincells)) + BOX_INV


def run_box(ctx, maxdeg, maxcells, maxbreak, kinds=("clamped", "periodic", "cu"), what=None, uniform_only=False, mincells=1):
    from harness.core import Machinery
    r = ctx.tlc("BSplinesMC", box_cfg(maxdeg, maxcells, maxbreak, kinds, uniform_only, mincells), workers=16, timeout=7200,
                what=what or "B-spline basis identities, degree<=%d, cells<=%d, breaks in 0..%d" % (maxdeg, maxcells, maxbreak))
    if r.violated:
        raise Machinery("BSplines.tla violates its own identity %s (the oracle is wrong):\n%s" % (r.violated, (r.trace_text or "")[:2000]))
    return sorted((Space(x) for x in r.rows), key=lambda s: s.key())     # TLC's row order depends on worker scheduling


class Space:
    """One spline space: degree p, kind, integer breakpoints, exact per-cell polynomials of every (unwrapped) basis function."""

    def __init__(self, row):
        self.p = row["p"]
        self.kind = row["kind"]
        self.br = [int(b) for b in row["br"]]
        self.knots = [int(k) for k in row["knots"]]
        self.ncells = len(self.br) - 1
        self.nb = self.ncells + self.p
        self.tab = [[[Fr(n, d) for n, d in poly] for poly in cells] for cells in row["tab"]]
        self.ints = [Fr(n, d) for n, d in row["ints"]]
        self.uniform = all(self.br[i + 1] - self.br[i] == self.br[1] - self.br[0] for i in range(self.ncells))
        self._der = {}

    def key(self):
        return (self.p, self.kind, tuple(self.br))

    def cell(self, x, side="right"):
        """cell index of x (0-based); at an interior breakpoint `side` chooses the cell; ends are closed"""
        br = self.br
        if x <= br[0]:
            return 0
        if x >= br[-1]:
            return self.ncells - 1
        c = 0
        while not (br[c] <= x < br[c + 1]):
            c += 1
        if side == "left" and x == br[c] and c > 0:
            return c - 1
        return c

    def poly(self, i, c, der=0):
        k = (i, c, der)
        if k not in self._der:
            q = self.tab[i][c]
            for _ in range(der):
                q = [q[j] * j for j in range(1, len(q))] or [Fr(0)]
            self._der[k] = q
        return self._der[k]

    def basis(self, i, x, der=0, side="right"):
        """exact value (Fraction) of the der-th derivative of unwrapped basis function i at x (integer coordinates)"""
        x = Fr(x)
        c = self.cell(x, side)
        s = x - self.br[c]
        acc = Fr(0)
        for a in reversed(self.poly(i, c, der)):
            acc = acc * s + a
        return acc

    def spline(self, coeffs, x, der=0, side="right"):
        x = Fr(x)
        c = self.cell(x, side)
        tot = 0
        for i in range(c, c + self.p + 1):       # the p+1 functions that do not vanish on cell c
            ci = coeffs[i]
            if ci != 0:
                b = self.basis(i, x, der, side)
                tot = tot + (ci * b if not isinstance(ci, complex) else complex(ci.real * float(b), ci.imag * float(b)))
        return tot

    # ---- construction of the real objects
    def real_breaks(self, a=0.0, h=1.0):
        return np.array([a + h * b for b in self.br], dtype=float)

    def make(self, a=0.0, h=1.0):
        """the real BSplines object of this space (knots from the code's own make_knots) on breakpoints a + h*br"""
        from pygyro.splines import splines as spl
        periodic = self.kind == "periodic" or (self.kind == "cu" and getattr(self, "cu_periodic", False))
        brk = self.real_breaks(a, h)
        knots = spl.make_knots(brk, self.p, periodic)
        return spl.BSplines(knots, self.p, periodic, self.kind == "cu")

    def wrap(self, c):
        """periodic coefficient vector: c[n+j] = c[j]"""
        c = list(c)
        n = self.ncells
        for j in range(self.p):
            c[n + j] = c[j]
        return c


def to_int_coord(x, a, h):
    """exact integer-coordinate position of the float x under x = a + h*xi (a, h floats taken exactly)"""
    return (Fr(x) - Fr(a)) / Fr(h)
