"""TLC runner: generates a cfg, runs TLC on a module of /verif/spec in a scratch dir, parses the result.

Conventions used by the specs:
  * `PrintT("ROW " \\o ToJson(rec))`  -> one JSON row per line (oracle tables, M3);
  * `PrintT("REJ " \\o ToJson(rec))`  -> a rejected trace / failing clause (trace validation, M4);
  * environment variables are read in the specs through IOUtils' `IOEnv`.
"""
import json
import os
import re
import shutil
import subprocess
import tempfile
import time

SPEC_DIR = os.path.join(os.path.dirname(os.path.dirname(os.path.abspath(__file__))), "spec")
JAR = "/opt/veriftools/tla/tla2tools.jar:/opt/veriftools/tla/CommunityModules-deps.jar"


class TLCMachineryError(Exception):
    pass


class TLCResult:
    def __init__(self):
        self.exit = None
        self.out = ""
        self.generated = 0
        self.distinct = 0
        self.depth = 0
        self.rows = []
        self.rejects = []
        self.violated = None       # name of violated invariant / property
        self.error_text = None     # TLC evaluation error (machinery)
        self.trace_text = None
        self.coverage = {}
        self.wall = 0.0
        self.cmd = ""

    @property
    def ok(self):
        return self.exit == 0 and self.violated is None and self.error_text is None


_FINAL = re.compile(r"(\d+) states generated, (\d+) distinct states found")
_DEPTH = re.compile(r"The depth of the complete state graph search is (\d+)")
_INV = re.compile(r"Error: Invariant (\S+) is violated")
_PROP = re.compile(r"Error: (?:Action property|Temporal properties|Property) ?(\S*) (?:is|were) violated")
_COV = re.compile(r"^<(\w+) line (\d+), col \d+ to line \d+, col \d+ of module (\w+)>: (\d+):(\d+)")


def scratch_dir(prefix="vt"):
    base = os.environ.get("VERIF_SCRATCH") or tempfile.gettempdir()
    return tempfile.mkdtemp(prefix=prefix + "_", dir=base)


def run_tlc(module, cfg, env=None, workers=16, simulate=None, depth=None, timeout=3600,
            coverage=False, files=None, keep=False, seed=None, dfid=None, extra_args=(), big=False):
    """Run TLC on spec/<module>.tla with configuration text `cfg`.

    files: dict name -> text of extra files placed next to the module (traces ...).
    simulate: None or "num=..." string for -simulate.
    """
    d = scratch_dir("tlc")
    res = TLCResult()
    try:
        for f in os.listdir(SPEC_DIR):
            if f.endswith(".tla"):
                shutil.copy(os.path.join(SPEC_DIR, f), d)
        with open(os.path.join(d, module + ".cfg"), "w") as fh:
            fh.write(cfg)
        for name, text in (files or {}).items():
            mode = "wb" if isinstance(text, bytes) else "w"
            with open(os.path.join(d, name), mode) as fh:
                fh.write(text)
        gc = ["-XX:+UseParallelGC", "-Xms2g", "-Xmx24g"] if big else ["-XX:+UseSerialGC", "-Xmx8g"]
        cmd = ["java"] + gc + ["-Xss64m", "-Djava.io.tmpdir=" + d, "-cp", JAR, "tlc2.TLC",
               "-workers", str(workers), "-metadir", os.path.join(d, "meta"), "-noGenerateSpecTE",
               "-config", module + ".cfg"]
        if simulate:
            cmd += ["-simulate", simulate]
        if depth:
            cmd += ["-depth", str(depth)]
        if seed is not None:
            cmd += ["-seed", str(seed)]
        if coverage:
            cmd += ["-coverage", "1"]
        if dfid:
            cmd += ["-dfid", str(dfid)]
        cmd += list(extra_args)
        cmd += [module + ".tla"]
        e = dict(os.environ)
        e.update({k: str(v) for k, v in (env or {}).items()})
        res.cmd = " ".join(cmd)
        t0 = time.time()
        try:
            p = subprocess.run(cmd, cwd=d, env=e, stdout=subprocess.PIPE, stderr=subprocess.STDOUT,
                               timeout=timeout, text=True, errors="replace")
            res.exit = p.returncode
            res.out = p.stdout
        except subprocess.TimeoutExpired as ex:
            res.exit = -9
            res.out = (ex.stdout or "") if isinstance(ex.stdout, str) else (ex.stdout or b"").decode("utf8", "replace")
            res.error_text = "TLC timed out after %ss" % timeout
        res.wall = time.time() - t0
        _parse(res)
        return res
    finally:
        if not keep:
            shutil.rmtree(d, ignore_errors=True)


def _parse(res):
    lines = res.out.splitlines()
    for i, ln in enumerate(lines):
        if ln.startswith('"ROW ') or ln.startswith('"REJ '):
            try:
                inner = json.loads(ln)
                rec = json.loads(inner[4:])
            except Exception as ex:      # interleaved / broken line: machinery
                res.error_text = "cannot parse TLC row %r: %s" % (ln[:200], ex)
                continue
            (res.rows if inner.startswith("ROW ") else res.rejects).append(rec)
            continue
        m = _FINAL.search(ln)
        if m:
            res.generated, res.distinct = int(m.group(1)), int(m.group(2))
        m = _DEPTH.search(ln)
        if m:
            res.depth = int(m.group(1))
        m = _INV.search(ln)
        if m and res.violated is None:
            res.violated = m.group(1)
            res.trace_text = "\n".join(lines[i:i + 200])
        m = _PROP.search(ln)
        if m and res.violated is None:
            res.violated = m.group(1) or "property"
            res.trace_text = "\n".join(lines[i:i + 200])
        m = _COV.match(ln)
        if m:
            res.coverage[m.group(1)] = res.coverage.get(m.group(1), 0) + int(m.group(4))
        if ln.startswith("Error:") and res.violated is None and res.error_text is None:
            if "Deadlock reached" in ln:
                res.violated = "Deadlock"
                res.trace_text = "\n".join(lines[i:i + 200])
            elif "Postcondition" in ln or "POSTCONDITION" in ln:
                res.violated = "Postcondition"
                res.trace_text = "\n".join(lines[i:i + 60])
            else:
                res.error_text = "\n".join(lines[i:i + 40])
    if res.exit not in (0,) and res.violated is None and res.error_text is None:
        res.error_text = "TLC exit %s:\n%s" % (res.exit, "\n".join(lines[-40:]))


def sany(module):
    d = scratch_dir("sany")
    try:
        p = subprocess.run(["java", "-Djava.io.tmpdir=" + d, "-cp", JAR, "tla2sany.SANY", module + ".tla"], cwd=SPEC_DIR,
                           stdout=subprocess.PIPE, stderr=subprocess.STDOUT, text=True)
    finally:
        shutil.rmtree(d, ignore_errors=True)
    ok = p.returncode == 0 and "Semantic errors" not in p.stdout and "***Parse Error***" not in p.stdout \
        and "Fatal errors" not in p.stdout and "Could not find module" not in p.stdout
    return ok, p.stdout


def tla_seq(xs):
    """Python nested lists/ints/strs/bools -> TLA+ expression text."""
    if isinstance(xs, bool):
        return "TRUE" if xs else "FALSE"
    if isinstance(xs, int):
        return str(xs)
    if isinstance(xs, str):
        return '"' + xs + '"'
    if isinstance(xs, (list, tuple)):
        return "<<" + ", ".join(tla_seq(x) for x in xs) + ">>"
    if isinstance(xs, (set, frozenset)):
        return "{" + ", ".join(tla_seq(x) for x in sorted(xs)) + "}"
    if isinstance(xs, dict):
        return "[" + ", ".join("%s |-> %s" % (k, tla_seq(v)) for k, v in xs.items()) + "]"
    raise TypeError(type(xs))
