"""Exact (rational) Galerkin solution of  A phi'' + B phi' + C phi - m^2 D phi = E rho  in cylindrical measure, on a clamped spline
space whose cell polynomials come from the BSplinesMC table (harness.splineoracle.Space): the statement C14 makes about the solver,
computed without quadrature.  Weak form (A constant, second-derivative term integrated by parts, natural Neumann conditions):

   a(phi, psi) = int ( -A phi' psi' r - A phi' psi + B phi' psi r + C phi psi r - m^2 D phi psi r ) dr = int E rho psi r dr

for every test function psi of the unknown range (first / last basis function dropped on a Dirichlet side)."""
from fractions import Fraction as Fr


def pmul(a, b):
    out = [Fr(0)] * (len(a) + len(b) - 1)
    for i, x in enumerate(a):
        if x:
            for j, y in enumerate(b):
                out[i + j] += x * y
    return out


def pder(a):
    return [a[k] * k for k in range(1, len(a))] or [Fr(0)]


def pint(a, w):
    """integral over [0, w]"""
    return sum(Fr(c) * Fr(w) ** (k + 1) / (k + 1) for k, c in enumerate(a))


def pshift(co, c0):
    """coefficients in s of  sum_k co[k] * (c0 + s)^k"""
    out = [Fr(0)]
    for a in reversed(co):
        out = pmul(out, [Fr(c0), Fr(1)])
        out[0] += Fr(a)
    return out


def solve(M, b):
    n = len(b)
    M = [row[:] + [b[i]] for i, row in enumerate(M)]
    for c in range(n):
        piv = next(r for r in range(c, n) if M[r][c] != 0)
        M[c], M[piv] = M[piv], M[c]
        for r in range(n):
            if r != c and M[r][c] != 0:
                f = M[r][c] / M[c][c]
                M[r] = [x - f * y for x, y in zip(M[r], M[c])]
    return [M[i][n] / M[i][i] for i in range(n)]


def galerkin(sp, r0, A, B, C, D, E, rho, msq, lN, uN):
    """sp: Space (clamped, breakpoints br); r = r0 + x.  B, C, D, E, rho: polynomial coefficient lists in r.
    Returns the exact coefficient vector (Fractions, length sp.nb) of the Galerkin solution."""
    nb = sp.nb
    lo, hi = (0 if lN else 1), (nb if uN else nb - 1)
    idx = list(range(lo, hi))
    K = [[Fr(0)] * len(idx) for _ in idx]
    F = [Fr(0)] * len(idx)
    for c in range(sp.ncells):
        w = sp.br[c + 1] - sp.br[c]
        rc = r0 + sp.br[c]
        rp = [Fr(rc), Fr(1)]
        Bp, Cp, Dp, Ep, Rp = (pshift(x, rc) for x in (B, C, D, E, rho))
        act = [i for i in idx if c <= i <= c + sp.p]
        polys = {i: [Fr(x) for x in sp.tab[i][c]] for i in act}
        for i in act:                     # test function psi_i
            psi, dpsi = polys[i], pder(polys[i])
            F[idx.index(i)] += pint(pmul(pmul(Ep, Rp), pmul(psi, rp)), w)
            for j in act:                 # trial function phi_j
                phi, dphi = polys[j], pder(polys[j])
                val = (-A * pint(pmul(pmul(dphi, dpsi), rp), w) - A * pint(pmul(dphi, psi), w)
                       + pint(pmul(pmul(Bp, dphi), pmul(psi, rp)), w) + pint(pmul(pmul(Cp, phi), pmul(psi, rp)), w)
                       - msq * pint(pmul(pmul(Dp, phi), pmul(psi, rp)), w))
                K[idx.index(i)][idx.index(j)] += val
    sol = solve(K, F)
    co = [Fr(0)] * nb
    for k, i in enumerate(idx):
        co[i] = sol[k]
    return co
