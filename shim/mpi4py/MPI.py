"""Simulated `mpi4py.MPI` (threads + deterministic scheduler + collective trace).

See /verif/DESIGN.md section 5.1.  Public harness entry point: `run(n, fn, ...)`.

* each rank is a thread; exactly one thread holds the baton; the baton changes hands only
  inside MPI calls, so an execution is a function of the scheduler's choice list;
* blocking collectives are matched per communicator by call order (MPI semantics);
  operation / root / datatype width / byte-count compatibility is checked when an
  instance completes (Mismatch), stuck states are detected (Deadlock);
* buffers move as bytes, counts are derived from the declared datatype width;
* `eager=True` lets the root of bcast/Bcast and the non-roots of gather/Gatherv/reduce/Reduce
  return before the other ranks arrive (MPI allows it);
* reductions fold contributions in arrival order.
"""
import threading
import random as _random
import traceback as _traceback
import numpy as np


class Datatype:
    def __init__(self, name, size):
        self.name, self.size = name, size

    def Get_size(self):
        return self.size

    def __repr__(self):
        return "MPI." + self.name


class Op:
    def __init__(self, name, py, npf):
        self.name, self.py, self.npf = name, py, npf

    def __repr__(self):
        return "MPI." + self.name


DOUBLE = Datatype("DOUBLE", 8)
C_DOUBLE_COMPLEX = Datatype("C_DOUBLE_COMPLEX", 16)
LONG = Datatype("LONG", 8)
INT = Datatype("INT", 4)
BYTE = Datatype("BYTE", 1)
SUM = Op("SUM", lambda a, b: a + b, np.add)
MIN = Op("MIN", lambda a, b: b if b < a else a, np.minimum)
MAX = Op("MAX", lambda a, b: b if b > a else a, np.maximum)
LAND = Op("LAND", lambda a, b: bool(a) and bool(b), np.logical_and)
PROD = Op("PROD", lambda a, b: a * b, np.multiply)
COMM_NULL = None
ANY_SOURCE = -1
ANY_TAG = -1


class SimError(Exception):
    """Base class of the failures the simulated layer itself reports."""


class Deadlock(SimError):
    pass


class Mismatch(SimError):
    pass


class RankFailed(SimError):
    pass


class Aborted(BaseException):
    """Raised inside rank threads to unwind them after the job failed elsewhere."""


_tls = threading.local()
_WAIT_S = 900.0


def _dtype_of(arr):
    a = np.asarray(arr)
    if a.dtype == np.float64:
        return DOUBLE
    if a.dtype == np.complex128:
        return C_DOUBLE_COMPLEX
    if a.dtype == np.int64:
        return LONG
    if a.dtype == np.int32:
        return INT
    return Datatype(str(a.dtype), a.dtype.itemsize)


def _spec(buf):
    """-> (ndarray, Datatype, counts or None, displs or None) from an mpi4py buffer spec."""
    counts = displs = None
    dt = None
    if isinstance(buf, (tuple, list)):
        arr = buf[0]
        rest = list(buf[1:])
        if rest and isinstance(rest[-1], Datatype):
            dt = rest.pop()
        if len(rest) == 1:
            counts = rest[0]
        elif len(rest) == 2:
            counts, displs = rest
    else:
        arr = buf
    if not isinstance(arr, np.ndarray):
        arr = np.asarray(arr)
    if not (arr.flags["C_CONTIGUOUS"] or arr.size == 0):
        raise ValueError("simulated MPI: buffer is not contiguous")
    if dt is None:
        dt = _dtype_of(arr)
    return arr, dt, counts, displs


def _bytes(arr):
    return arr.reshape(-1).view(np.uint8)


class _Instance:
    __slots__ = ("key", "members", "arrived", "sig", "payload", "consumed", "result", "checked")

    def __init__(self, key, members):
        self.key = key
        self.members = members
        self.arrived = []          # world ranks in arrival order
        self.sig = {}
        self.payload = {}
        self.consumed = 0
        self.result = None
        self.checked = False

    def complete(self):
        return len(self.arrived) == len(self.members)


class Job:
    def __init__(self, n, policy="asc", seed=0, choices=None, eager=False, inline=False):
        self.n = n
        self.policy = policy
        self.rng = _random.Random(seed)
        self.replay = list(choices) if choices is not None else None
        self.replay_pos = 0
        self.replay_diverged = False
        self.eager = eager
        self.inline = inline
        self.cond = threading.Condition()
        self.current = None
        self.state = ["ready"] * n
        self.wait = [None] * n
        self.instances = {}
        self.callcount = {}
        self.trace = [[] for _ in range(n)]
        self.choices = []
        self.error = None
        self.failed = {}
        self.world = [Intracomm(self, list(range(n)), ("world",)) for _ in range(n)]
        self.ncalls = 0

    # ---- scheduling -------------------------------------------------------------
    def _runnable(self):
        out = []
        for r in range(self.n):
            s = self.state[r]
            if s == "ready":
                out.append(r)
            elif s == "blocked" and self.wait[r].complete():
                out.append(r)
        return out

    def _pick(self):
        """Choose the next rank (cond held).  Sets self.error on deadlock."""
        run = self._runnable()
        if not run:
            if all(s == "done" for s in self.state):
                self.current = None
            else:
                pos = {r: (self.wait[r].key if self.wait[r] is not None else None, self.state[r])
                       for r in range(self.n)}
                self.error = Deadlock("no rank can make progress: %r" % (pos,))
                self.current = None
            self.cond.notify_all()
            return
        if self.replay is not None and self.replay_pos < len(self.replay):
            c = self.replay[self.replay_pos]
            self.replay_pos += 1
            if c not in run:
                self.replay_diverged = True
                c = run[0]
        elif self.policy == "asc":
            c = run[0]
        elif self.policy == "desc":
            c = run[-1]
        elif self.policy == "random":
            c = self.rng.choice(run)
        elif self.policy == "rr":
            last = self.choices[-1] if self.choices else -1
            later = [r for r in run if r > last]
            c = later[0] if later else run[0]
        else:
            raise ValueError("unknown policy %r" % (self.policy,))
        self.choices.append(c)
        self.current = c
        self.cond.notify_all()

    def _yield(self, me):
        if self.inline:
            return
        with self.cond:
            self._pick()
            self._await(me)

    def _await(self, me):
        while self.current != me:
            if self.error is not None:
                raise Aborted()
            if not self.cond.wait(timeout=_WAIT_S):
                self.error = SimError("scheduler watchdog expired (machinery)")
                self.cond.notify_all()
                raise Aborted()
        if self.error is not None:
            raise Aborted()

    # ---- collectives ------------------------------------------------------------
    def collective(self, comm, sig, payload, early=False):
        me = _tls.rank
        ck = (comm.cid, me)
        seq = self.callcount.get(ck, 0)
        self.callcount[ck] = seq + 1
        key = (comm.cid, seq)
        with self.cond:
            inst = self.instances.get(key)
            if inst is None:
                inst = self.instances[key] = _Instance(key, comm.members)
            inst.arrived.append(me)
            inst.sig[me] = sig
            inst.payload[me] = payload
            self.ncalls += 1
            rec = dict(sig)
            rec["comm"] = comm.cid
            rec["seq"] = seq
            rec["n"] = len(self.trace[me])
            self.trace[me].append(rec)
            if inst.complete() and not inst.checked:
                inst.checked = True
                msg = _check(inst)
                if msg is not None and self.error is None:
                    self.error = Mismatch(msg)
            if self.eager and early:
                self.state[me] = "ready"
            else:
                self.state[me] = "blocked"
                self.wait[me] = inst
        if self.error is not None and self.inline:
            raise self.error
        self._yield(me)
        with self.cond:
            self.state[me] = "ready"
            self.wait[me] = None
            inst.consumed += 1
            if inst.consumed == len(inst.members):
                self.instances.pop(key, None)
        return inst


def _check(inst):
    sigs = inst.sig
    ranks = list(inst.members)
    first = sigs[ranks[0]]
    for r in ranks[1:]:
        s = sigs[r]
        for k in ("op", "root", "width", "rop", "arg"):
            if s.get(k) != first.get(k):
                return "collective mismatch on %r: rank %d %r vs rank %d %r" % (inst.key, ranks[0], first, r, s)
    op = first["op"]
    if op in ("Alltoall",):
        sb = {sigs[r]["bytes"] for r in ranks}
        rb = {sigs[r]["rbytes"] for r in ranks}
        if len(sb) != 1 or sb != rb or next(iter(sb)) % len(ranks) != 0:
            return "Alltoall count mismatch on %r: send %r recv %r" % (inst.key, sorted(sb), sorted(rb))
    elif op == "Allgather":
        sb = {sigs[r]["bytes"] for r in ranks}
        if len(sb) != 1:
            return "Allgather send-count mismatch on %r: %r" % (inst.key, sorted(sb))
        b = next(iter(sb))
        for r in ranks:
            if sigs[r]["rbytes"] != b * len(ranks):
                return "Allgather recv-count mismatch on %r: rank %d has room %d for %d" % (
                    inst.key, r, sigs[r]["rbytes"], b * len(ranks))
    elif op in ("Reduce", "Bcast", "Allreduce"):
        sb = {sigs[r]["bytes"] for r in ranks}
        if len(sb) != 1:
            return "%s count mismatch on %r: %r" % (op, inst.key, sorted(sb))
    elif op == "Gatherv":
        root = ranks[first["root"]]
        rc = sigs[root].get("rcounts")
        if rc is None or len(rc) != len(ranks):
            return "Gatherv: root gave %r counts for %d ranks on %r" % (rc, len(ranks), inst.key)
        for i, r in enumerate(ranks):
            if sigs[r]["bytes"] != rc[i]:
                return "Gatherv count mismatch on %r: rank %d sends %d bytes, root expects %d" % (
                    inst.key, r, sigs[r]["bytes"], rc[i])
    return None


class Comm:
    """Base class (exists so that `MPI.Comm` annotations resolve)."""


class Intracomm(Comm):
    def __init__(self, job, members, cid):
        self.job = job
        self.members = list(members)   # world ranks, in communicator rank order
        self.cid = cid

    # identity semantics, tolerant of the COMM_WORLD proxy
    def __eq__(self, other):
        if isinstance(other, _WorldProxy):
            other = other._resolve()
        return self is other

    def __ne__(self, other):
        return not self.__eq__(other)

    def __hash__(self):
        return id(self)

    def __repr__(self):
        return "<sim comm %r size %d>" % (self.cid, len(self.members))

    def Get_rank(self):
        return self.members.index(_tls.rank)

    def Get_size(self):
        return len(self.members)

    rank = property(Get_rank)
    size = property(Get_size)

    def _root_world(self, root):
        if not (0 <= root < len(self.members)):
            raise ValueError("invalid root %r" % (root,))
        return self.members[root]

    def _run(self, sig, payload, early=False):
        return self.job.collective(self, sig, payload, early)

    # -- object collectives
    def Barrier(self):
        self._run({"op": "Barrier"}, None)

    barrier = Barrier

    def bcast(self, obj, root=0):
        rw = self._root_world(root)
        inst = self._run({"op": "bcast", "root": root}, obj, early=(_tls.rank == rw))
        return inst.payload[rw] if _tls.rank != rw else obj

    def gather(self, obj, root=0):
        rw = self._root_world(root)
        inst = self._run({"op": "gather", "root": root}, obj, early=(_tls.rank != rw))
        if _tls.rank == rw:
            return [inst.payload[m] for m in self.members]
        return None

    def allgather(self, obj):
        inst = self._run({"op": "allgather"}, obj)
        return [inst.payload[m] for m in self.members]

    def _fold(self, inst, op):
        acc = None
        for m in inst.arrived:
            v = inst.payload[m]
            acc = v if acc is None else op.py(acc, v)
        return acc

    def reduce(self, obj, op=SUM, root=0):
        rw = self._root_world(root)
        inst = self._run({"op": "reduce", "root": root, "rop": op.name}, obj, early=(_tls.rank != rw))
        if _tls.rank == rw:
            return self._fold(inst, op)
        return None

    def allreduce(self, obj, op=SUM):
        inst = self._run({"op": "allreduce", "rop": op.name}, obj)
        return self._fold(inst, op)

    # -- buffer collectives
    def Bcast(self, buf, root=0):
        rw = self._root_world(root)
        arr, dt, _, _ = _spec(buf)
        me = _tls.rank
        inst = self._run({"op": "Bcast", "root": root, "width": dt.size, "bytes": arr.nbytes},
                         _bytes(arr).copy() if me == rw else None, early=(me == rw))
        if me != rw:
            _bytes(arr)[:] = inst.payload[rw]

    def Reduce(self, sendbuf, recvbuf, op=SUM, root=0):
        rw = self._root_world(root)
        me = _tls.rank
        sarr, dt, _, _ = _spec(sendbuf)
        inst = self._run({"op": "Reduce", "root": root, "rop": op.name, "width": dt.size, "bytes": sarr.nbytes},
                         sarr.copy(), early=(me != rw))
        if me == rw:
            rarr, _, _, _ = _spec(recvbuf)
            acc = None
            for m in inst.arrived:
                v = inst.payload[m]
                acc = v.copy() if acc is None else op.npf(acc, v)
            if rarr.nbytes < acc.nbytes:
                raise Mismatch("Reduce: receive buffer too small at root")
            rarr.reshape(-1)[:acc.size] = acc.reshape(-1)

    def Allreduce(self, sendbuf, recvbuf, op=SUM):
        sarr, dt, _, _ = _spec(sendbuf)
        inst = self._run({"op": "Allreduce", "rop": op.name, "width": dt.size, "bytes": sarr.nbytes}, sarr.copy())
        rarr, _, _, _ = _spec(recvbuf)
        acc = None
        for m in inst.arrived:
            v = inst.payload[m]
            acc = v.copy() if acc is None else op.npf(acc, v)
        rarr.reshape(-1)[:acc.size] = acc.reshape(-1)

    def Alltoall(self, sendbuf, recvbuf):
        sarr, sdt, _, _ = _spec(sendbuf)
        rarr, rdt, _, _ = _spec(recvbuf)
        n = len(self.members)
        inst = self._run({"op": "Alltoall", "width": sdt.size, "bytes": sarr.nbytes, "rbytes": rarr.nbytes},
                         _bytes(sarr).copy())
        k = sarr.nbytes // n
        me = self.members.index(_tls.rank)
        out = _bytes(rarr)
        for i, m in enumerate(self.members):
            out[i * k:(i + 1) * k] = inst.payload[m][me * k:(me + 1) * k]

    def Allgather(self, sendbuf, recvbuf):
        sarr, sdt, _, _ = _spec(sendbuf)
        rarr, rdt, _, _ = _spec(recvbuf)
        inst = self._run({"op": "Allgather", "width": sdt.size, "bytes": sarr.nbytes, "rbytes": rarr.nbytes},
                         _bytes(sarr).copy())
        k = sarr.nbytes
        out = _bytes(rarr)
        for i, m in enumerate(self.members):
            out[i * k:(i + 1) * k] = inst.payload[m]

    def Gatherv(self, sendbuf, recvbuf, root=0):
        rw = self._root_world(root)
        me = _tls.rank
        sarr, sdt, _, _ = _spec(sendbuf)
        sig = {"op": "Gatherv", "root": root, "width": sdt.size, "bytes": sarr.nbytes}
        if me == rw:
            rarr, rdt, counts, displs = _spec(recvbuf)
            if counts is None:
                raise ValueError("Gatherv: root must give counts")
            counts = [int(c) for c in counts]
            if displs is None:
                displs = [int(x) for x in np.concatenate(([0], np.cumsum(counts)[:-1]))]
            displs = [int(d) for d in displs]
            sig["rcounts"] = [c * rdt.size for c in counts]
        inst = self._run(sig, _bytes(sarr).copy(), early=(me != rw))
        if me == rw:
            out = _bytes(rarr)
            w = rdt.size
            for i, m in enumerate(self.members):
                p = inst.payload[m]
                if displs[i] * w + len(p) > out.size:
                    raise Mismatch("Gatherv: receive buffer overflow at root")
                out[displs[i] * w:displs[i] * w + len(p)] = p

    # -- communicator construction
    def Create_cart(self, dims, periods=None, reorder=False):
        dims = tuple(int(d) for d in dims)
        self._run({"op": "Create_cart", "arg": dims}, None)
        if int(np.prod(dims)) != len(self.members):
            raise ValueError("Create_cart: dims %r do not multiply to the communicator size %d" % (dims, len(self.members)))
        return Cartcomm(self.job, self.members, ("cart", self.cid, dims), dims)

    def Split(self, color=0, key=0):
        inst = self._run({"op": "Split"}, (int(color), int(key)))
        mine = int(color)
        group = sorted([m for m in self.members if inst.payload[m][0] == mine],
                       key=lambda m: (inst.payload[m][1], self.members.index(m)))
        return Intracomm(self.job, group, ("split", self.cid, mine))

    def Dup(self):
        self._run({"op": "Dup"}, None)
        return Intracomm(self.job, self.members, ("dup", self.cid))

    def Free(self):
        pass

    def send(self, *a, **k):
        raise NotImplementedError("simulated MPI: point-to-point is not modelled")

    recv = Iprobe = Send = Recv = send


class Cartcomm(Intracomm):
    def __init__(self, job, members, cid, dims):
        super().__init__(job, members, cid)
        self.dims = dims

    def Get_coords(self, rank):
        return [int(c) for c in np.unravel_index(rank, self.dims)]

    def Get_cart_rank(self, coords):
        return int(np.ravel_multi_index(coords, self.dims))

    def Sub(self, remain_dims):
        remain = tuple(bool(b) for b in remain_dims)
        self._run({"op": "Sub", "arg": remain}, None)
        me = self.Get_coords(self.Get_rank())
        mem = []
        for r in range(len(self.members)):
            c = self.Get_coords(r)
            if all(remain[d] or c[d] == me[d] for d in range(len(self.dims))):
                mem.append(self.members[r])
        fixed = tuple(me[d] for d in range(len(self.dims)) if not remain[d])
        sub_dims = tuple(self.dims[d] for d in range(len(self.dims)) if remain[d])
        return Cartcomm(self.job, mem, ("sub", self.cid, remain, fixed), sub_dims or (1,))


class _WorldProxy(Comm):
    """`MPI.COMM_WORLD`: resolves to the calling rank thread's world communicator."""

    def _resolve(self):
        job = getattr(_tls, "job", None)
        if job is None:
            job = _serial_job()
        return job.world[_tls.rank]

    def __getattr__(self, name):
        return getattr(self._resolve(), name)

    def __eq__(self, other):
        if isinstance(other, _WorldProxy):
            return True
        return self._resolve() is other

    def __ne__(self, other):
        return not self.__eq__(other)

    def __hash__(self):
        return 1

    def __repr__(self):
        return "<sim COMM_WORLD proxy>"


COMM_WORLD = _WorldProxy()
COMM_SELF = COMM_WORLD


def _serial_job():
    """A one-rank inline world for code run outside `run` (no threads, no scheduling)."""
    job = Job(1, inline=True)
    _tls.job = job
    _tls.rank = 0
    return job


def reset_serial():
    _tls.job = None


class Result:
    def __init__(self, job, values):
        self.values = values
        self.traces = job.trace
        self.choices = job.choices
        self.error = job.error
        self.failed = job.failed
        self.replay_diverged = job.replay_diverged
        self.ncalls = job.ncalls

    @property
    def ok(self):
        return self.error is None and not self.failed

    def describe(self):
        if self.failed:
            r = sorted(self.failed)[0]
            return "rank %d raised %s: %s" % (r, self.failed[r][0], self.failed[r][1])
        if self.error is not None:
            return "%s: %s" % (type(self.error).__name__, self.error)
        return "ok"


def run(n, fn, policy="asc", seed=0, choices=None, eager=False, args=()):
    """Run fn(comm_world, *args) on n simulated ranks; never raises for rank failures."""
    job = Job(n, policy=policy, seed=seed, choices=choices, eager=eager)
    values = [None] * n

    def body(r):
        _tls.job = job
        _tls.rank = r
        try:
            with job.cond:
                job._await(r)
            values[r] = fn(job.world[r], *args)
        except Aborted:
            pass
        except BaseException as e:      # noqa - a rank failure is data for the harness
            with job.cond:
                job.failed[r] = (type(e).__name__, str(e), _traceback.format_exc())
                if job.error is None:
                    job.error = RankFailed("rank %d raised %s: %s" % (r, type(e).__name__, e))
                job.cond.notify_all()
        finally:
            with job.cond:
                job.state[r] = "done"
                if job.error is None and job.current == r:
                    job._pick()
                else:
                    job.cond.notify_all()

    threads = [threading.Thread(target=body, args=(r,), daemon=True) for r in range(n)]
    for t in threads:
        t.start()
    with job.cond:
        job._pick()
    for t in threads:
        t.join(_WAIT_S + 60)
        if t.is_alive():
            with job.cond:
                if job.error is None:
                    job.error = SimError("rank thread did not terminate (machinery)")
                job.cond.notify_all()
    return Result(job, values)
