"""Simulated mpi4py for the pygyro verification harness (see /verif/DESIGN.md section 5.1).

Only `mpi4py.MPI` is provided.  Ranks are threads; exactly one runs at a time and
control changes hands only at MPI calls, under a deterministic scheduler.
"""
__version__ = "0.0-verif-shim"
