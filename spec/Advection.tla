------------------------------ MODULE Advection ------------------------------
(***************************************************************************)
(* Semi-Lagrangian advection operators: where the foot of a characteristic *)
(* lies and which rule gives the new nodal value.  Positions are exact     *)
(* (integers in a fine common unit, or rationals).                         *)
(*                                                                         *)
(* v-parallel advection (advection.py:345-374, accelerated_advection_steps *)
(* .py:145-190): f'(v_i) = S(v_i - c dt) when the foot lies in             *)
(* [vMin, vMax] (closed), otherwise by mode                                *)
(*    "fEq"      : the equilibrium distribution at (r, foot)               *)
(*    "null"     : 0                                                       *)
(*    "periodic" : S at the image of the foot: while foot < vMin add the   *)
(*                 width, while foot > vMax subtract it (so an image that  *)
(*                 lands exactly on an end point stays there)              *)
(*                                                                         *)
(* poloidal advection (accelerated_advection_steps.py:10-120, 239-370):    *)
(* characteristics of d theta/dt = d_r phi/(r B0), d r/dt = -d_theta phi/  *)
(* (r B0) traced back over dt with Heun's method (explicit) or the         *)
(* implicit trapezoidal rule; feet outside [rMin, rMax] take 0 (nulEdge),  *)
(* or f_eq(rMin, v) below and f_eq(foot, v) above.                         *)
(***************************************************************************)
EXTENDS Rat

(* ---- v-parallel: integer positions in a common unit ---- *)
Outside(foot, a, b) == foot < a \/ foot > b
RECURSIVE WrapUp(_, _, _)
WrapUp(x, a, w) == IF x < a THEN WrapUp(x + w, a, w) ELSE x
RECURSIVE WrapDown(_, _, _)
WrapDown(x, b, w) == IF x > b THEN WrapDown(x - w, b, w) ELSE x
WrapPeriodic(x, a, b) == WrapDown(WrapUp(x, a, b - a), b, b - a)
VParRule(foot, a, b, mode) ==
    IF mode = "periodic" THEN "image"
    ELSE IF ~Outside(foot, a, b) THEN "interpolant"
    ELSE IF mode = "fEq" THEN "equilibrium" ELSE "zero"

(* ---- poloidal: rational arithmetic; ur, ut = d_r phi, d_theta phi evaluated where needed ---- *)
\* one explicit Heun step for a potential that depends on theta only (d_r phi = 0): theta is unchanged and
\*   r1 = r + g/r * m,   rfoot = r + (g/r + [r1 inside] g/r1) * m/2,       g = d_theta phi(theta), m = dt/B0
InsideR(x, rmin, rmax) == ~(RLt(x, rmin) \/ RLt(rmax, x))
HeunR1(r, g, m) == RAdd(r, RMul(RDiv(g, r), m))
HeunRFoot(r, g, m, rmin, rmax) ==
    LET r1 == HeunR1(r, g, m)
        k  == IF InsideR(r1, rmin, rmax) THEN RDiv(g, r1) ELSE Zero
    IN RAdd(r, RMul(RAdd(RDiv(g, r), k), RDiv(m, I(2))))
\* a forward Euler step would give r1 itself; Heun differs from it whenever g # 0 (1/r # 1/r1)
HeunDiffersFromEuler(r, g, m, rmin, rmax) == (g[1] # 0 /\ InsideR(HeunR1(r, g, m), rmin, rmax)) => HeunRFoot(r, g, m, rmin, rmax) # HeunR1(r, g, m)
\* rigid rotation phi = omega r^2/2: d_r phi / r = omega at every radius, both stages equal: theta_foot = theta - omega m
RotFoot(theta, omega, m) == RSub(theta, RMul(omega, m))
PolRule(rfoot, rmin, rmax, nulEdge) ==
    IF InsideR(rfoot, rmin, rmax) THEN "interpolant"
    ELSE IF nulEdge THEN "zero"
    ELSE IF RLt(rfoot, rmin) THEN "equilibrium-at-rMin" ELSE "equilibrium-at-foot"
\* implicit trapezoid for the theta-only family: fixed point  x = r + (g/r + g/x) m/2  (x clipped to the domain);
\* residual of a candidate x
ImplResidual(x, r, g, m) == RSub(x, RAdd(r, RMul(RAdd(RDiv(g, r), RDiv(g, x)), RDiv(m, I(2)))))
=============================================================================
