----------------------------- MODULE AdvectionMC -----------------------------
(* Small exhaustive boxes for the rules of Advection: the periodic image lies in the domain and differs from the  *)
(* foot by a whole number of widths; the rules partition the cases; Heun differs from Euler; prints the Heun feet  *)
(* of the theta-only family for replay (C12).                                                                      *)
EXTENDS Advection, TLC, Json
CONSTANTS N, GMax, MDen
VARIABLES kind, x, y, z
Init == \/ kind = "wrap" /\ x \in (-3 * N)..(4 * N) /\ y = 0 /\ z = N
        \/ kind = "heun" /\ x \in 1..N /\ y \in (-GMax)..GMax /\ z \in {-2, -1, 1, 2}
Next == FALSE /\ UNCHANGED <<kind, x, y, z>>
IWrap == kind = "wrap" => LET w == WrapPeriodic(x, y, z) IN
            /\ w >= y /\ w <= z /\ (w - x) % (z - y) = 0
            /\ (~Outside(x, y, z) => w = x)
            /\ VParRule(x, y, z, "fEq") \in {"interpolant", "equilibrium"} /\ VParRule(x, y, z, "null") \in {"interpolant", "zero"}
            /\ (VParRule(x, y, z, "fEq") = "interpolant" <=> (x >= y /\ x <= z))
\* r = x (integers 1..N), g = y/2, m = z/MDen, domain [1, N]
R == I(x)
G == Norm(y, 2)
M == Norm(z, MDen)
IHeun == kind = "heun" => HeunDiffersFromEuler(R, G, M, I(1), I(N))
Dump == kind = "heun" => PrintT("ROW " \o ToJson([r |-> R, g |-> G, m |-> M, rmin |-> I(1), rmax |-> I(N), r1 |-> HeunR1(R, G, M),
                                                  rfoot |-> HeunRFoot(R, G, M, I(1), I(N)),
                                                  rule_null |-> PolRule(HeunRFoot(R, G, M, I(1), I(N)), I(1), I(N), TRUE),
                                                  rule_feq |-> PolRule(HeunRFoot(R, G, M, I(1), I(N)), I(1), I(N), FALSE)]))
=============================================================================
