------------------------------ MODULE BSplines -------------------------------
(***************************************************************************)
(* The mathematical B-spline basis (Cox-de Boor) on a knot vector, as      *)
(* exact piecewise polynomials: for every basis function and every cell a  *)
(* polynomial (module Poly) in the local coordinate s = x - (left break of *)
(* the cell).  Knot vectors are the ones the code's paths really use:      *)
(*   "clamped"  : end breakpoints repeated p times   (splines.py make_knots)*)
(*   "periodic" : breakpoints extended by periodicity (make_knots)          *)
(*   "cu"       : the uniform-cubic fast path evaluates the uniform cubic   *)
(*                B-splines of the uniformly EXTENDED knot vector           *)
(*                (cubic_uniform_spline_eval_funcs.py), clamped or periodic *)
(*                coefficient handling alike                                *)
(* Breakpoints are integers (the harness maps them affinely; B-splines are *)
(* affine invariant, derivatives scale by 1/h).  Knots and basis functions *)
(* are 1-based; a spline with coefficient vector c (length ncells + p) is  *)
(* sum_i c[i] N_i.                                                         *)
(***************************************************************************)
EXTENDS Poly, FiniteSets

NCells(br) == Len(br) - 1
Knots(br, p, kind) ==
    LET nb == Len(br) per == br[nb] - br[1] IN
    [k \in 1..(nb + 2 * p) |->
        IF kind = "clamped" THEN (IF k <= p THEN br[1] ELSE IF k > p + nb THEN br[nb] ELSE br[k - p])
        ELSE IF kind = "periodic" THEN (IF k <= p THEN br[nb - p - 1 + k] - per
                                        ELSE IF k > p + nb THEN br[k - p - nb + 1] + per ELSE br[k - p])
        ELSE \* "cu": uniform extension (p = 3)
             br[1] + (k - p - 1) * (br[2] - br[1])]
NBasis(br, p) == NCells(br) + p            \* number of (unwrapped) basis functions
\* knot span of cell c (1-based): T[c + p] = br[c]
Span(c, p) == c + p

\* the k+1 non-vanishing basis functions of degree k on span mu, as polynomials in s = x - T[mu]:
\* Level(T, mu, k)[j+1] = N_{mu-k+j, k},  j = 0..k
RECURSIVE Level(_, _, _)
Level(T, mu, k) ==
    IF k = 0 THEN <<POne>>
    ELSE LET prev == Level(T, mu, k - 1) b == T[mu] IN
         [jj \in 1..(k + 1) |->
            LET j == jj - 1 i == mu - k + j
                \* (x - T[i]) / (T[i+k] - T[i]) * N_{i,k-1}      (N_{i,k-1} = prev[j], exists for j >= 1)
                d1 == T[i + k] - T[i]
                left == IF j >= 1 /\ d1 # 0 THEN PMulLin(prev[j], Norm(b - T[i], d1), Norm(1, d1)) ELSE PZero
                \* (T[i+k+1] - x) / (T[i+k+1] - T[i+1]) * N_{i+1,k-1}   (= prev[j+1], exists for j <= k-1)
                d2 == T[i + k + 1] - T[i + 1]
                right == IF j <= k - 1 /\ d2 # 0 THEN PMulLin(prev[j + 1], Norm(T[i + k + 1] - b, d2), Norm(-1, d2)) ELSE PZero
            IN PAdd(left, right)]

\* Table(br, p, kind)[i][c] = polynomial of basis function i on cell c (zero where it vanishes)
Table(br, p, kind) ==
    LET T == Knots(br, p, kind)
        lev == [c \in 1..NCells(br) |-> Level(T, Span(c, p), p)]
    IN [i \in 1..NBasis(br, p) |-> [c \in 1..NCells(br) |->
            LET mu == Span(c, p) j == i - (mu - p) IN IF j >= 0 /\ j <= p THEN lev[c][j + 1] ELSE PZero]]

H(br, c) == br[c + 1] - br[c]
\* integral over the domain of every (unwrapped) basis function
Integrals(br, p, tab) ==
    [i \in 1..NBasis(br, p) |-> RSumSeq([c \in 1..NCells(br) |-> PEval(PInt(tab[i][c]), I(H(br, c)))], NCells(br))]

(* ---- identities of the basis, as exact polynomial identities per cell ---- *)
PartitionOfUnity(br, p, tab) ==
    \A c \in 1..NCells(br) : PEq(PSumSeq([i \in 1..NBasis(br, p) |-> tab[i][c]], NBasis(br, p)), POne)
DerivativesSumToZero(br, p, tab) ==
    \A c \in 1..NCells(br) : IsZeroP(PSumSeq([i \in 1..NBasis(br, p) |-> PDer(tab[i][c])], NBasis(br, p)))
RECURSIVE PDerN(_, _)
PDerN(q, r) == IF r = 0 THEN q ELSE PDerN(PDer(q), r - 1)
\* C^(p-1) at interior breakpoints (simple knots)
Smooth(br, p, tab) ==
    \A i \in 1..NBasis(br, p) : \A c \in 1..(NCells(br) - 1) : \A r \in 0..(p - 1) :
        PEval(PDerN(tab[i][c], r), I(H(br, c))) = PEval(PDerN(tab[i][c + 1], r), Zero)
\* non-negative on every cell, sampled at quarter points incl. both ends (half points for degree >= 4: the
\* denominators 4^p would overflow TLC's 32-bit integers)
NonNegative(br, p, tab) ==
    LET m == IF p >= 4 THEN 2 ELSE 4 IN
    \A i \in 1..NBasis(br, p) : \A c \in 1..NCells(br) : \A q \in 0..m :
        RGe0(PEval(tab[i][c], Norm(q * H(br, c), m)))
IntegralsSumToLength(br, p, tab) ==
    RSumSeq(Integrals(br, p, tab), NBasis(br, p)) = I(br[Len(br)] - br[1])
\* periodic coefficient vectors (c[n+j] = c[j]) give equal value and derivatives at both ends of the period:
\* for every j the wrapped function N_j + N_{n+j} matches at a and b
PeriodicEndsMatch(br, p, tab) ==
    LET n == NCells(br) nc == NCells(br) IN
    \A j \in 1..n : \A r \in 0..(p - 1) :
        LET w(c) == IF j <= p THEN PAdd(tab[j][c], tab[n + j][c]) ELSE tab[j][c]
        IN PEval(PDerN(w(1), r), Zero) = PEval(PDerN(w(nc), r), I(H(br, nc)))
=============================================================================
