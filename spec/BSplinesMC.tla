----------------------------- MODULE BSplinesMC ------------------------------
(* Enumerates spline spaces (degree, boundary kind, integer breakpoints), derives the exact piecewise-polynomial  *)
(* basis once per space (state variable tab), checks the identities of the basis, and prints the table as a ROW:   *)
(* the oracle the real evaluation / interpolation / quadrature code is compared with (C07-C09, C10-C16).           *)
EXTENDS BSplines, TLC, Json
CONSTANTS MaxDeg, MaxCells, MaxBreak, Kinds, UniformOnly, MinCells
VARIABLES sp, tab, ints, stage
\* strictly increasing integer sequences of length n+1 from 0 within 0..MaxBreak
Incr(n) == {b \in [1..(n + 1) -> 0..MaxBreak] : b[1] = 0 /\ \A i \in 1..n : b[i] < b[i + 1]}
Uniform(b) == \A i \in 1..(Len(b) - 1) : b[i + 1] - b[i] = b[2] - b[1]
Admissible(p, kind, b) ==
    /\ (kind = "periodic" => NCells(b) >= p)
    /\ (kind = "cu" => p = 3 /\ Uniform(b))
Init == /\ stage = 0 /\ tab = <<>> /\ ints = <<>>
        /\ sp \in [p : 1..MaxDeg, kind : Kinds, br : {<<0, 1>>}]
Next == /\ stage = 0 /\ stage' = 1
        /\ \E n \in MinCells..MaxCells : \E b \in (IF UniformOnly THEN {[i \in 1..(n + 1) |-> i - 1]} ELSE Incr(n)) :
              /\ Admissible(sp.p, sp.kind, b)
              /\ sp' = [sp EXCEPT !.br = b]
              /\ tab' = Table(b, sp.p, sp.kind)
              /\ ints' = Integrals(b, sp.p, tab')
On == stage = 1
IPartitionOfUnity == On => PartitionOfUnity(sp.br, sp.p, tab)
IDerivativesSumToZero == On => DerivativesSumToZero(sp.br, sp.p, tab)
ISmooth == (On /\ sp.kind # "clamped") => Smooth(sp.br, sp.p, tab)
\* clamped: interior breakpoints are simple knots too
ISmoothClamped == (On /\ sp.kind = "clamped") => Smooth(sp.br, sp.p, tab)
INonNegative == On => NonNegative(sp.br, sp.p, tab)
IIntegrals == On => IntegralsSumToLength(sp.br, sp.p, tab)
IPeriodic == (On /\ sp.kind \in {"periodic"}) => PeriodicEndsMatch(sp.br, sp.p, tab)
\* the uniform-cubic path on a periodic space: uniformly extended knots = periodically extended knots
ICuIsPeriodicExtension == (On /\ sp.kind = "cu" /\ NCells(sp.br) >= 3) => tab = Table(sp.br, 3, "periodic")
Dump == On => PrintT("ROW " \o ToJson([p |-> sp.p, kind |-> sp.kind, br |-> sp.br, knots |-> Knots(sp.br, sp.p, sp.kind),
                                        tab |-> tab, ints |-> ints]))
=============================================================================
