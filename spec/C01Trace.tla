------------------------------ MODULE C01Trace -------------------------------
(***************************************************************************)
(* Trace specification for C01: every LayoutHandler.transpose call         *)
(* recorded on every simulated rank is one `Transpose` action of           *)
(* LayoutAbs; the recorded destination block (decoded tokens) must be the  *)
(* block LayoutAbs assigns to that rank, the call must complete, and with  *)
(* a spare buffer the source must be bit-identical afterwards.             *)
(*   e = [sh, P, rc, so, do, ok, block, usebuf, intact, route, hops]       *)
(* orderings 1-based, P and rc padded to the array rank.                   *)
(***************************************************************************)
EXTENDS LayoutAbs, TraceBase
VARIABLE l

RouteOK(e) ==  \* drift-level: each recorded hop is a compatible single-axis swap and the route ends at the destination
    LET r == e.hops IN
    \/ e.so = e.do
    \/ /\ Len(r) >= 1 /\ r[Len(r)] = e.do
       /\ \A i \in 1..Len(r) : Compatible(IF i = 1 THEN e.so ELSE r[i - 1], r[i], e.P)

TransposeEv(e) == Verdict(e, <<
    <<"transpose-completes", e.ok>>,
    <<"dest-block", e.ok => BlockIs(e.block, e.sh, e.do, e.P, e.rc, 0)>>,
    <<"source-intact", (e.ok /\ e.usebuf) => e.intact>>,
    <<"hop-compatible", e.ok => RouteOK(e)>> >>)

Event(e) == CASE e.k = "transpose" -> TransposeEv(e)
              [] OTHER -> Rej(e, "unknown-event-kind")
Init == l = 1
Next == l <= Len(Trace) /\ Event(Trace[l]) /\ l' = l + 1
Accepted == TLCGet("stats").diameter = Len(Trace) + 1
=============================================================================
