------------------------------ MODULE C02Trace -------------------------------
(***************************************************************************)
(* Trace specification for C02: tables, layouts, accessors and buffer      *)
(* sizes recorded from pygyro.model.layout.Layout / LayoutHandler /        *)
(* LayoutSwapper and pygyro.model.grid.Grid are judged by the              *)
(* formula-independent predicates of Partition and by Layouts.             *)
(* Dimensions and positions are 1-based here (the harness converts),       *)
(* indices, starts and rank coordinates are 0-based.                       *)
(***************************************************************************)
EXTENDS Layouts, TraceBase

VARIABLE l

SeqOfLen(s, n) == DOMAIN s = 1..n

\* ---- one-dimensional tables: e = [n, p, starts, lens, maxlen]
Table1D(e) == Verdict(e, <<
    <<"table-lengths", SeqOfLen(e.starts, e.p) /\ SeqOfLen(e.lens, e.p)>>,
    <<"tiling", SeqOfLen(e.starts, e.p) /\ SeqOfLen(e.lens, e.p) /\ IsTiling(e.starts, e.lens, e.n)>>,
    <<"each-index-owned-once", SeqOfLen(e.starts, e.p) /\ SeqOfLen(e.lens, e.p) /\ ExactlyOnce(e.starts, e.lens, e.n)>>,
    <<"balanced", SeqOfLen(e.lens, e.p) /\ IsBalanced(e.lens)>>,
    <<"non-empty", SeqOfLen(e.lens, e.p) /\ NonEmptyBlocks(e.lens)>>,
    <<"max-block", SeqOfLen(e.lens, e.p) /\ e.maxlen = SeqMax(e.lens)>> >>)
\* drift only: the tables are the ones of the formula transcribed in Partition
Table1DDrift(e) == SeqOfLen(e.starts, e.p) /\ SeqOfLen(e.lens, e.p)
                   /\ e.starts = StartsTable(e.n, e.p) /\ e.lens = LensTable(e.n, e.p)

\* ---- a Layout object on rank coordinate rc:
\*   e = [sh, ord, P, rc, starts, ends, shape, size, maxshape, maxsize, fullshape, tstarts, tlens]
LayoutRec(e) ==
    LET nd == Len(e.sh)
        okshape == /\ SeqOfLen(e.ord, nd) /\ SeqOfLen(e.P, nd) /\ SeqOfLen(e.rc, nd) /\ SeqOfLen(e.starts, nd)
                   /\ SeqOfLen(e.ends, nd) /\ SeqOfLen(e.shape, nd) /\ SeqOfLen(e.maxshape, nd)
                   /\ SeqOfLen(e.fullshape, nd) /\ SeqOfLen(e.tstarts, nd) /\ SeqOfLen(e.tlens, nd)
                   /\ \A i \in 1..nd : SeqOfLen(e.tstarts[i], e.P[i]) /\ SeqOfLen(e.tlens[i], e.P[i])
    IN Verdict(e, <<
    <<"record-shape", okshape>>,
    <<"per-position-tiling", okshape /\ \A i \in 1..nd : IsTiling(e.tstarts[i], e.tlens[i], e.sh[e.ord[i]])>>,
    <<"per-position-balanced", okshape /\ \A i \in 1..nd : IsBalanced(e.tlens[i])>>,
    <<"starts-agree", okshape /\ \A i \in 1..nd : e.starts[i] = e.tstarts[i][e.rc[i] + 1]>>,
    <<"ends-agree", okshape /\ \A i \in 1..nd : e.ends[i] = e.starts[i] + e.tlens[i][e.rc[i] + 1]>>,
    <<"shape-agrees", okshape /\ \A i \in 1..nd : e.shape[i] = e.ends[i] - e.starts[i]>>,
    <<"size-agrees", okshape /\ e.size = Prod(e.shape)>>,
    <<"max-shape-agrees", okshape /\ \A i \in 1..nd : e.maxshape[i] = SeqMax(e.tlens[i])>>,
    <<"max-size-agrees", okshape /\ e.maxsize = Prod(e.maxshape)>>,
    <<"full-shape-agrees", okshape /\ \A i \in 1..nd : e.fullshape[i] = e.sh[e.ord[i]]>> >>)
LayoutDrift(e) == /\ e.starts = LocStart(e.sh, e.ord, e.P, e.rc) /\ e.shape = LocShape(e.sh, e.ord, e.P, e.rc)
                  /\ e.maxshape = MaxShape(e.sh, e.ord, e.P)

\* ---- grid accessors.  Coordinate values are encoded by the harness as eta[d][g] = 1000*d + g (d 1-based),
\* so a returned value names the dimension and global index it belongs to.
\*   e = [sh, ord, starts, ends, name, arg, ok, res]     starts/ends: the (validated) tables of the layout
Coord(d, g) == 1000 * d + g
Accessor(e) ==
    LET nd == Len(e.sh) inv == InvOrd(e.ord)
        pos == IF e.name = "getEta" THEN inv[e.arg] ELSE e.arg          \* getEta takes a dimension, the others a position
        n   == IF e.name = "getGlobalIndices" THEN 0 ELSE e.ends[pos] - e.starts[pos]
        d   == IF e.name = "getGlobalIndices" THEN 0 ELSE e.ord[pos]
    IN Verdict(e, <<
    <<"accessor-returns", e.ok>>,
    <<"accessor-agrees-with-partition", e.ok =>
        CASE e.name \in {"getCoords", "getEta"} ->
               /\ SeqOfLen(e.res, n)
               /\ \A k \in 1..n : e.res[k] = <<k - 1, Coord(d, e.starts[pos] + k - 1)>>
          [] e.name = "getCoordVals" ->
               /\ SeqOfLen(e.res, n) /\ \A k \in 1..n : e.res[k] = Coord(d, e.starts[pos] + k - 1)
          [] e.name = "getGlobalIdxVals" ->
               /\ SeqOfLen(e.res, n) /\ \A k \in 1..n : e.res[k] = e.starts[pos] + k - 1
          [] e.name = "getGlobalIndices" ->      \* arg = local index tuple by position; res = global index by dimension
               /\ SeqOfLen(e.res, nd) /\ \A i \in 1..nd : e.res[e.ord[i]] = e.arg[i] + e.starts[i]
          [] OTHER -> FALSE>> >>)

\* ---- buffer sizes: e = [buf, sizes]   sizes = local block size of every layout of the manager on this rank
Buffer(e) == Verdict(e, << <<"buffer-holds-every-block", \A i \in DOMAIN e.sizes : e.buf >= e.sizes[i]>> >>)

\* ---- a transpose run with arrays of exactly the advertised size: e = [ok, correct]
ExactBuf(e) == Verdict(e, << <<"transpose-with-exact-buffers-completes", e.ok>>,
                             <<"transpose-with-exact-buffers-correct", e.ok => e.correct>> >>)


Event(e) == CASE e.k = "table1d"  -> Table1D(e) /\ NoDrift(e, Table1DDrift(e))
              [] e.k = "layout"   -> LayoutRec(e) /\ NoDrift(e, LayoutDrift(e))
              [] e.k = "accessor" -> Accessor(e)
              [] e.k = "buffer"   -> Buffer(e)
              [] e.k = "exactbuf" -> ExactBuf(e)
              [] OTHER -> Rej(e, "unknown-event-kind")

Init == l = 1
Next == l <= Len(Trace) /\ Event(Trace[l]) /\ l' = l + 1
Accepted == TLCGet("stats").diameter = Len(Trace) + 1
=============================================================================
