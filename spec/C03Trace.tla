------------------------------ MODULE C03Trace -------------------------------
(***************************************************************************)
(* Trace specification for C03 (LayoutSwapper).  A swapper joins groups of *)
(* layouts distributed over different process sets.  Whatever chain of     *)
(* gather / scatter / transpose steps a call takes, afterwards every rank  *)
(* must hold the block that LayoutAbs assigns to its rank coordinates in   *)
(* the destination layout (so all replicas - ranks with equal coordinates  *)
(* in that layout - hold identical data), and the ranks' coordinates must  *)
(* cover every block of the destination layout's partition (nothing of the *)
(* global field is lost).  Histories: each event is one call in a sequence *)
(* on the same arrays; the token field never changes, so every step is     *)
(* judged absolutely and a round trip reproduces the original blocks.      *)
(*   swap  : [sh, do, dP, drc, block, ok, usebuf, intact, cur]             *)
(*   cover : [dP, rcs]      rank coordinates of all ranks in the dest layout*)
(***************************************************************************)
EXTENDS LayoutAbs, TraceBase
VARIABLE l

SwapEv(e) == Verdict(e, <<
    <<"swap-completes", e.ok>>,
    <<"dest-block", e.ok => BlockIs(e.block, e.sh, e.do, e.dP, e.drc, 0)>>,
    <<"source-intact", (e.ok /\ e.usebuf) => e.intact>>,
    <<"current-manager-tracks-data", e.ok => e.cur>> >>)

CoverEv(e) == Verdict(e, <<
    <<"every-block-held-by-some-rank", {e.rcs[i] : i \in DOMAIN e.rcs} = RankCoords(e.dP)>> >>)

Event(e) == CASE e.k = "swap"  -> SwapEv(e)
              [] e.k = "cover" -> CoverEv(e)
              [] OTHER -> Rej(e, "unknown-event-kind")
Init == l = 1
Next == l <= Len(Trace) /\ Event(Trace[l]) /\ l' = l + 1
Accepted == TLCGet("stats").diameter = Len(Trace) + 1
=============================================================================
