------------------------------ MODULE C04Trace -------------------------------
(***************************************************************************)
(* Trace specification for C04: histories of operations on real Grid       *)
(* objects (one event stream per simulated rank) are stepped through the   *)
(* actions of GridBuffers; after every operation the data visible through  *)
(* the grid (decoded tokens of getAllData()) must be the block LayoutAbs   *)
(* assigns to that rank for the reference array's current version and      *)
(* layout, currentLayout must be the reference layout, and calls the       *)
(* reference model cannot take (double save, restore/free without save, no *)
(* save memory) must be refused and change nothing.                        *)
(*   reset : [sh, PR (name -> [P, rc] of this rank in that layout),         *)
(*            lays (record name -> ordering), l0]                           *)
(*   op    : [op, lay, refused, name, block, di, bi, si, ns]               *)
(* A stream whose accepted/refused outcome diverged from the model is      *)
(* reported once and skipped up to the next reset (no cascades).           *)
(***************************************************************************)
EXTENDS GridBuffers, LayoutAbs, TraceBase
VARIABLES l, cx, dead
tvars == <<gvars, l, cx, dead>>

GReset(l0) ==
    /\ arr' = [i \in 0..2 |-> IF i = 0 THEN [ver |-> 0, lay |-> l0] ELSE Garbage]
    /\ di' = 0 /\ bi' = 1 /\ si' = 2
    /\ notSaved' = TRUE /\ savedLay' = "none"
    /\ cur' = [ver |-> 0, lay |-> l0] /\ saved' = None /\ last' = "ok" /\ nv' = 1

ResetEv(e) == /\ GReset(e.l0) /\ cx' = e /\ dead' = FALSE
              /\ Verdict(e, << <<"initial-block", BlockIs(e.block, e.sh, e.lays[e.l0], e.PR[e.l0].P, e.PR[e.l0].rc, 0)>> >>)

Enabled(e) == CASE e.op = "setLayout" -> e.lay \in LayoutNames
                [] e.op = "write"     -> TRUE
                [] e.op = "save"      -> CanSave
                [] e.op = "restore"   -> CanRestore
                [] e.op = "free"      -> CanFree
                [] OTHER -> FALSE
Act(e) == CASE e.op = "setLayout" -> SetLayout(e.lay, FALSE)
            [] e.op = "write"     -> Write
            [] e.op = "save"      -> Save
            [] e.op = "restore"   -> Restore
            [] e.op = "free"      -> Free
            [] OTHER -> FALSE
Visible(e, c) == e.name = c.lay /\ BlockIs(e.block, cx.sh, cx.lays[c.lay], cx.PR[c.lay].P, cx.PR[c.lay].rc, c.ver)

OpEv(e) ==
    IF dead THEN UNCHANGED <<gvars, cx, dead>>
    ELSE IF Enabled(e)
    THEN IF e.refused
         THEN /\ Verdict(e, << <<"well-formed-call-accepted", FALSE>> >>) /\ dead' = TRUE /\ UNCHANGED <<gvars, cx>>
         ELSE /\ Act(e) /\ UNCHANGED <<cx, dead>>
              /\ Verdict(e, << <<"written-version-is-fresh", e.op = "write" => e.ver = nv>>,
                               <<"current-layout", e.name = cur'.lay>>,
                               <<"visible-data-is-model", Visible(e, cur')>> >>)
              /\ NoDrift(e, e.di = di' /\ e.bi = bi' /\ e.si = si' /\ (HasSave => e.ns = notSaved'))
    ELSE IF e.refused
         THEN /\ Refused(e.op) /\ UNCHANGED <<cx, dead>>
              /\ Verdict(e, << <<"refused-call-changes-nothing", Visible(e, cur)>> >>)
         ELSE /\ Verdict(e, << <<"ill-formed-call-refused", FALSE>> >>) /\ dead' = TRUE /\ UNCHANGED <<gvars, cx>>

Event(e) == CASE e.k = "reset" -> ResetEv(e)
              [] e.k = "op"    -> OpEv(e)
              [] OTHER -> Rej(e, "unknown-event-kind") /\ UNCHANGED <<gvars, cx, dead>>
Init == /\ l = 1 /\ cx = [sh |-> <<>>] /\ dead = TRUE
        /\ GInit("none")
Next == l <= Len(Trace) /\ Event(Trace[l]) /\ l' = l + 1
Accepted == TLCGet("stats").diameter = Len(Trace) + 1
\* the invariants of GridBuffers are evaluated at every step of every recorded history
TVisibleIsModel == VisibleIsModel
TSaveProtected  == SaveProtected
TIndices        == IndicesDistinct
=============================================================================
