------------------------------ MODULE C05Trace -------------------------------
(***************************************************************************)
(* Trace specification for C05.  One trace = one run of the real driver on *)
(* a given process grid, recorded by wrappers around the public methods:   *)
(*   start : [grid]                     a new run (process grid as text)    *)
(*   stmt  : [op, g, to]                a driver statement as executed      *)
(*   slices: [op, calls, notown, own, used]  all slice calls of one operator*)
(*           invocation on one rank, aggregated: number of calls whose      *)
(*           parameters were not those of the slice's own global coordinates*)
(*           (first offending call given as own/used)                       *)
(*   field : [what, same, dev]   assembled global field vs. the serial run  *)
(* Statements must be the ones TimeStep allows next, with its enabling      *)
(* conditions (layout assertions) true.                                     *)
(***************************************************************************)
EXTENDS TimeStep, TraceBase
VARIABLE l
StartEv(e) == /\ lay' = [f |-> "v_parallel", phi |-> "mode_solve", rho |-> "v_parallel_2d"]
              /\ savedLay' = "none" /\ pc' = <<"prologue", 1>> /\ steps' = 0
StmtEv(e) ==
    LET st == Cur same == e.op = st.op /\ e.g = st.g /\ e.to = st.to IN
    IF same /\ Pre(st)
    THEN Apply(st) /\ Advance
    ELSE /\ UNCHANGED tsvars
         /\ Verdict(e, << <<"statement-follows-the-time-loop", same>>, <<"operator-layout-assertion", same => Pre(st)>> >>)
SlicesEv(e) == /\ UNCHANGED tsvars
               /\ Verdict(e, << <<"param-is-own", e.notown = 0 /\ ParamIsOwn(e)>> >>)
FieldEv(e) == /\ UNCHANGED tsvars
              /\ Verdict(e, << <<"run-completes", e.ok>>, <<"same-global-field-as-serial-run", e.ok => e.same>> >>)
Event(e) == CASE e.k = "start" -> StartEv(e)
              [] e.k = "stmt" -> StmtEv(e)
              [] e.k = "slices" -> SlicesEv(e)
              [] e.k = "field" -> FieldEv(e)
              [] OTHER -> Rej(e, "unknown-event-kind") /\ UNCHANGED tsvars
TInit == l = 1 /\ Init
TNext == l <= Len(Trace) /\ Event(Trace[l]) /\ l' = l + 1
Accepted == TLCGet("stats").diameter = Len(Trace) + 1
=============================================================================
