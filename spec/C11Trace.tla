------------------------------ MODULE C11Trace -------------------------------
(***************************************************************************)
(* Trace specification for C11.                                            *)
(*  vpar : [foot, vmin, vmax, mode, wrap, m_interp, m_feq, m_zero, m_image]*)
(*         one node of one VParallelAdvection.step call: positions as      *)
(*         integers in the unit h/120 (all nodes of degree <= 5 splines on *)
(*         integer breakpoints and all displacements in eighths of a cell  *)
(*         are integers there); m_* say whether the value returned by the  *)
(*         code equals (to 1e-9) the exact interpolant at the foot, the    *)
(*         equilibrium at (r, foot), zero, the interpolant at `wrap`.      *)
(*  slices : aggregated slice calls of the grid-level steps (as C05Trace)  *)
(***************************************************************************)
EXTENDS Advection, TraceBase
VARIABLE l
VparEv(e) ==
    LET rule == VParRule(e.foot, e.vmin, e.vmax, e.mode) IN Verdict(e, <<
    <<"step-completes", e.ok>>,
    <<"inside-foot-takes-interpolant", (e.ok /\ ~e.edge /\ rule = "interpolant") => e.m_interp>>,
    <<"outside-foot-takes-equilibrium-at-foot", (e.ok /\ ~e.edge /\ rule = "equilibrium") => e.m_feq>>,
    <<"outside-foot-takes-zero", (e.ok /\ ~e.edge /\ rule = "zero") => e.m_zero>>,
    \* a foot that lies exactly on an end point in exact arithmetic but whose node is not a binary fraction (thirds, fifths of a
    \* cell) is within rounding distance of the branch: either rule is accepted
    <<"end-point-foot-takes-one-of-the-rules", (e.ok /\ e.edge) => (e.m_interp \/ e.m_feq \/ e.m_zero \/ e.m_image)>>,
    <<"periodic-image-position", (e.ok /\ rule = "image") => e.wrap = WrapPeriodic(e.foot, e.vmin, e.vmax)>>,
    <<"periodic-foot-takes-interpolant-at-image", (e.ok /\ ~e.edge /\ rule = "image") => e.m_image>> >>)
SlicesEv(e) == Verdict(e, << <<"gradient-of-own-global-position", e.notown = 0 /\ e.used = e.own>> >>)
Event(e) == CASE e.k = "vpar" -> VparEv(e) [] e.k = "slices" -> SlicesEv(e) [] OTHER -> Rej(e, "unknown-event-kind")
Init == l = 1
Next == l <= Len(Trace) /\ Event(Trace[l]) /\ l' = l + 1
Accepted == TLCGet("stats").diameter = Len(Trace) + 1
=============================================================================
