------------------------------ MODULE C12Feet --------------------------------
(* Oracle evaluation for C12: for every query [id, r, g, m, rmin, rmax] (exact rationals: node radius, d_theta phi at the   *)
(* node in cell units, dt/B0' ) TLC evaluates the Heun step of Advection for the theta-only family and prints the stage-1   *)
(* radius, the foot and the rule for both edge modes; the harness then evaluates the exact 2-D interpolant at that foot.    *)
EXTENDS Advection, TLC, Json, IOUtils
Queries == JsonDeserialize(IOEnv.QUERY_FILE)
VARIABLE q
Init == q \in 1..Len(Queries)
Next == FALSE /\ UNCHANGED q
Q == Queries[q]
R(x) == <<x[1], x[2]>>
IHeun == HeunDiffersFromEuler(R(Q.r), R(Q.g), R(Q.m), R(Q.rmin), R(Q.rmax))
Dump == LET r == R(Q.r) g == R(Q.g) m == R(Q.m) lo == R(Q.rmin) hi == R(Q.rmax) f == HeunRFoot(r, g, m, lo, hi) IN
        PrintT("ROW " \o ToJson([id |-> Q.id, r1 |-> HeunR1(r, g, m), rfoot |-> f,
                                  rule_null |-> PolRule(f, lo, hi, TRUE), rule_feq |-> PolRule(f, lo, hi, FALSE)]))
=============================================================================
