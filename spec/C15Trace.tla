------------------------------ MODULE C15Trace -------------------------------
(***************************************************************************)
(* Trace specification for C15 (quasi-neutrality pipeline).                *)
(*  roundtrip : [ok, same]        getModes then findPotential = identity   *)
(*  support   : [n, m0, nonzero]  density g(r)*cos/sin(m0 theta): global   *)
(*              mode indices in which the transformed density / the solved *)
(*              potential is non-zero - must be exactly the indices whose  *)
(*              mode number is +-m0 in the spec's FFT-order mode table     *)
(*  potential : [ok, match, real]  potential of the whole pipeline on a    *)
(*              process grid equals the manufactured phi(r)*trig(m0 theta) *)
(*              (forcing computed by TLC with the spec's m^2); imaginary   *)
(*              part zero for real density                                 *)
(*  relation  : [name, holds]      relations between solver variants       *)
(*  equilibrium : [ok, rho_zero, phi_zero, fixed_point]                    *)
(***************************************************************************)
EXTENDS Galerkin, TraceBase
VARIABLE l
SeqSet(q) == {q[i] : i \in 1..Len(q)}
RoundEv(e) == Verdict(e, << <<"transform-completes", e.ok>>, <<"fft-round-trip-is-identity", e.ok => e.same>> >>)
SupportEv(e) == Verdict(e, <<
    <<"modes-follow-fft-order-table", SeqSet(e.nonzero) = {k \in 0..(e.n - 1) : ModeNumber(k, e.n) \in {e.m0, -e.m0}}>> >>)
PotEv(e) == Verdict(e, << <<"pipeline-completes", e.ok>>,
                          <<"potential-equals-per-mode-solution", e.ok => e.match>>,
                          <<"potential-real-for-real-density", e.ok => e.real>> >>)
RelEv(e) == Verdict(e, << <<e.name, e.holds>> >>)
EqEv(e) == Verdict(e, << <<"run-completes", e.ok>>, <<"equilibrium-density-zero", e.ok => e.rho_zero>>,
                         <<"equilibrium-potential-zero", e.ok => e.phi_zero>>,
                         <<"equilibrium-is-fixed-point-of-time-step", e.ok => e.fixed_point>> >>)
Event(e) == CASE e.k = "roundtrip" -> RoundEv(e) [] e.k = "support" -> SupportEv(e) [] e.k = "potential" -> PotEv(e)
              [] e.k = "relation" -> RelEv(e) [] e.k = "equilibrium" -> EqEv(e) [] OTHER -> Rej(e, "unknown-event-kind")
Init == l = 1
Next == l <= Len(Trace) /\ Event(Trace[l]) /\ l' = l + 1
Accepted == TLCGet("stats").diameter = Len(Trace) + 1
=============================================================================
