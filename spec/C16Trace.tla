------------------------------ MODULE C16Trace -------------------------------
(***************************************************************************)
(* Trace specification for C16.                                            *)
(*  rho : [IL, c, got, exact, ok, im]  one (r,theta,z) point: coefficient  *)
(*        vector c of the v-profile there, the code's density times L/h    *)
(*        rounded (got), whether it was within 1e-4 of an integer (exact), *)
(*        imaginary part zero for complex storage (im)                     *)
(*  lin : [IL, c1, c2, a]   linearity of the exact functional (spec-level) *)
(*  equil : [maxabs_zero, ok]  density of the equilibrium distribution     *)
(***************************************************************************)
EXTENDS Density, TraceBase
VARIABLE l
RhoEv(e) == Verdict(e, <<
    <<"density-computed", e.ok>>,
    <<"density-is-exact-integral-of-interpolant", e.ok => (e.exact /\ e.got = RhoScaled(e.c, e.IL))>>,
    <<"imaginary-part-zero", e.ok => e.im>> >>)
LinEv(e) == Verdict(e, << <<"integral-linear", Linear(e.c1, e.c2, e.a, e.IL)>> >>)
EquilEv(e) == Verdict(e, << <<"density-computed", e.ok>>, <<"equilibrium-has-zero-perturbed-density", e.ok => e.zero>> >>)
Event(e) == CASE e.k = "rho" -> RhoEv(e) [] e.k = "lin" -> LinEv(e) [] e.k = "equil" -> EquilEv(e)
              [] OTHER -> Rej(e, "unknown-event-kind")
Init == l = 1
Next == l <= Len(Trace) /\ Event(Trace[l]) /\ l' = l + 1
Accepted == TLCGet("stats").diameter = Len(Trace) + 1
=============================================================================
