------------------------------ MODULE C17Trace -------------------------------
(***************************************************************************)
(* Trace specification for C17.                                            *)
(*  diag   : [q, kind, sh, r, v, total, exact]   total = scaled sum over    *)
(*           one replica set of the local diagnostics of the real classes  *)
(*  volume : [sh, r, v, total, exact, q]   field one                        *)
(*  minmax : [kind, sh, fix, mn, mx, ok]  values received at the drawing rank*)
(*  slot   : [step, S, written, ok]     column of `diagnostics` that changed*)
(*  reduce : [q, kind, sh, r, v, total, exact] DiagnosticCollector.reduce() *)
(*           result on rank 0 (l2 entries squared back by the harness)      *)
(***************************************************************************)
EXTENDS Reductions, TraceBase
VARIABLE l
DiagEv(e) == Verdict(e, <<
    <<"diagnostic-computed", e.ok>>,
    <<"result-is-exact-integer-multiple", e.ok => e.exact>>,
    <<"sum-over-processes-equals-serial-quadrature", (e.ok /\ e.exact) => e.total = Serial(e.q, e.kind, e.cplx, e.sh, e.r, e.v)>> >>)
VolumeEv(e) == Verdict(e, <<
    <<"diagnostic-computed", e.ok>>,
    <<"field-one-gives-volume-factor", (e.ok /\ e.exact) => e.total = Volume(e.sh, e.r, e.v)>>,
    <<"volume-factor-equals-serial-quadrature", Serial(e.q, "one", FALSE, e.sh, e.r, e.v) = Volume(e.sh, e.r, e.v)>> >>)
MinMaxEv(e) == LET S == SliceVals(e.kind, e.sh, e.fix) IN Verdict(e, <<
    <<"reduction-completes", e.ok>>,
    <<"minimum-of-global-field", e.ok => e.mn = SetMin(S)>>,
    <<"maximum-of-global-field", e.ok => e.mx = SetMax(S)>> >>)
SlotEv(e) == Verdict(e, <<
    <<"collect-completes", e.ok>>,
    <<"written-to-own-time-slot", e.ok => e.written = <<Slot(e.step, e.S)>> >> >>)
\* the line printed for a slot shows the eight reduced quantities of that slot in the documented column order
LineEv(e) == Verdict(e, << <<"printed-line-equals-reduced-quantities", e.ok>> >>)
Event(e) == CASE e.k \in {"diag", "reduce"} -> DiagEv(e)
              [] e.k = "line" -> LineEv(e)
              [] e.k = "volume" -> VolumeEv(e)
              [] e.k = "minmax" -> MinMaxEv(e)
              [] e.k = "slot" -> SlotEv(e)
              [] OTHER -> Rej(e, "unknown-event-kind")
Init == l = 1
Next == l <= Len(Trace) /\ Event(Trace[l]) /\ l' = l + 1
Accepted == TLCGet("stats").diameter = Len(Trace) + 1
=============================================================================
