------------------------------ MODULE C18Trace -------------------------------
(***************************************************************************)
(* Trace specification for C18.                                            *)
(*  newfolder : start of a sequence of real driver runs in an empty folder *)
(*  run    : [tEnd, S, dt, ok, files, lines]  one run of the real          *)
(*           fullSimulation.main(); files = times of the grid_* checkpoints*)
(*           present afterwards, lines = first column of phiDat.txt        *)
(*  final  : [k2, dt, same, phisame]  last checkpoint of the split sequence *)
(*           compared bit for bit with that of the unsplit run             *)
(*  load   : [sh, do, P, rc, block, ok]  block a rank holds after          *)
(*           loadFromFile / setupFromFile (token field, maybe other process*)
(*           count than at save time)                                      *)
(*  dataset: [sh, do, data, attr]  the file's dataset and Layout attribute *)
(*  latest : [times, chosen, ok]   which checkpoint the loader picked      *)
(*  const  : [ok, same]  constants file re-read with permuted key order    *)
(*  folder : [act, c, name, nsim, from, dir, ret, extra, ok]  one call of   *)
(*           setupSave: directory before / after, name returned per rank   *)
(*           (SaveFolderOps: the transition of SaveFolder.tla)             *)
(***************************************************************************)
EXTENDS Restart, LayoutAbs, TraceBase, SaveFolderOps
VARIABLES l, folder
SeqToSet(q) == {q[i] : i \in 1..Len(q)}
Ones(n) == [i \in 1..n |-> 1]
Zeros(n) == [i \in 1..n |-> 0]

RunEv(e) ==
    LET want == Run(folder, e.tEnd, e.S, e.dt) IN
    /\ folder' = want
    /\ Verdict(e, <<
                    <<"run-completes-without-fault", e.ok>>,
                    <<"checkpoint-files", e.ok => SeqToSet(e.files) = want.files>>,
                    <<"one-diagnostics-line-per-step-in-order", e.ok => e.lines = want.lines>> >>)
FinalEv(e) == /\ UNCHANGED folder
              /\ Verdict(e, <<
                    <<"lines-complete", OneLinePerStepInOrder(folder, e.k2, e.dt)>>,
                    <<"latest-checkpoint-is-final-time", ResumeTime(folder) = e.k2 * e.dt>>,
                    <<"split-equals-unsplit-distribution", e.same>>,
                    <<"split-equals-unsplit-potential", e.phisame>> >>)
LoadEv(e) == /\ UNCHANGED folder
             /\ Verdict(e, << <<"load-completes", e.ok>>,
                              <<"loaded-block-is-global-field", e.ok => BlockIs(e.block, e.sh, e.do, e.P, e.rc, e.ver)>> >>)
DatasetEv(e) == /\ UNCHANGED folder
                /\ Verdict(e, <<
                    <<"layout-attribute", e.attr = e.do>>,
                    <<"dataset-in-global-index-order-of-recorded-layout", BlockIs(e.data, e.sh, e.do, Ones(Len(e.sh)), Zeros(Len(e.sh)), e.ver)>> >>)
LatestEv(e) == /\ UNCHANGED folder
               /\ Verdict(e, << <<"load-completes", e.ok>>,
                                <<"largest-time-chosen", e.ok => e.chosen = SetMax(SeqToSet(e.times))>> >>)
ConstEv(e) == /\ UNCHANGED folder
              /\ Verdict(e, << <<"constants-file-parsed", e.ok>>, <<"same-constants-in-any-key-order", e.ok => e.same>> >>)
FolderEv(e) ==
    LET auto == e.act = "auto"
        wantDir == IF auto THEN AutoTo(e.from, e.nsim, e.c) ELSE NamedTo(e.from, e.name, e.c)
        wantRet == IF auto THEN AutoRet(e.from, e.nsim) ELSE e.name IN
    /\ UNCHANGED folder
    /\ Verdict(e, << <<"setupSave-completes", e.ok>>,
                     <<"returned-folder-holds-the-constants-of-this-call", e.ok => e.dir[wantRet] = e.c>>,
                     <<"directory-after-the-call-is-the-models", e.ok => e.dir = wantDir>>,
                     <<"every-rank-returns-the-models-name", e.ok => \A i \in 1..Len(e.ret) : e.ret[i] = wantRet>>,
                     <<"nothing-else-created-and-contents-kept", e.ok => (e.extra = <<>> /\ e.kept)>> >>)
Event(e) == CASE e.k = "newfolder" -> folder' = EmptyFolder
              [] e.k = "run" -> RunEv(e)
              [] e.k = "final" -> FinalEv(e)
              [] e.k = "load" -> LoadEv(e)
              [] e.k = "dataset" -> DatasetEv(e)
              [] e.k = "latest" -> LatestEv(e)
              [] e.k = "const" -> ConstEv(e)
              [] e.k = "folder" -> FolderEv(e)
              [] OTHER -> Rej(e, "unknown-event-kind") /\ UNCHANGED folder
Init == l = 1 /\ folder = EmptyFolder
Next == l <= Len(Trace) /\ Event(Trace[l]) /\ l' = l + 1
Accepted == TLCGet("stats").diameter = Len(Trace) + 1
=============================================================================
