------------------------------ MODULE C20Trace -------------------------------
(* Trace specification for C20: calls of the real compute_2d_process_grid_from_max /        *)
(* compute_2d_process_grid are judged by the property itself (valid factorisation, or an     *)
(* error exactly when none exists; every distributed dimension of the three standard         *)
(* layouts gets at least one point per process; the standard layouts can be built and        *)
(* connected).   call : [max1, max2, size, raised, n1, n2, returned]                          *)
(*               grid : [npts, size, raised, n1, n2, built]                                  *)
(*               gridcall : [npts, size, returned, raised, n1, n2]                           *)
EXTENDS Integers, Sequences, TraceBase
VARIABLE l
Fits(e, a, b) == a * b = e.size /\ a >= 1 /\ a <= e.max1 /\ b >= 1 /\ b <= e.max2
SomeFit(e) == \E a \in 1..(IF e.size < e.max1 THEN e.size ELSE e.max1) : e.size % a = 0 /\ Fits(e, a, e.size \div a)
CallEv(e) == Verdict(e, <<
    <<"terminates", e.returned>>,
    <<"valid-result", (e.returned /\ ~e.raised) => Fits(e, e.n1, e.n2)>>,
    <<"raises-only-if-none-fits", (e.returned /\ e.raised) => ~SomeFit(e)>>,
    <<"finds-one-if-any-fits", (e.returned /\ ~e.raised) => SomeFit(e)>> >>)
\* npts = <<nr, ntheta, nz, nv>>; standard layouts: flux_surface (r,v,theta,z), v_parallel (r,z,theta,v), poloidal (v,z,theta,r)
GridEv(e) ==
    LET c == [size |-> e.size, max1 |-> IF e.npts[1] < e.npts[4] THEN e.npts[1] ELSE e.npts[4],
              max2 |-> IF e.npts[3] < e.npts[4] THEN e.npts[3] ELSE e.npts[4]]
    IN Verdict(e, <<
    <<"valid-result", ~e.raised => Fits(c, e.n1, e.n2)>>,
    <<"every-process-owns-a-point", ~e.raised =>
          /\ e.n1 <= e.npts[1] /\ e.n2 <= e.npts[4]       \* flux_surface: r over n1, v over n2
          /\ e.n2 <= e.npts[3]                             \* v_parallel : r over n1, z over n2
          /\ e.n1 <= e.npts[4]>>,                          \* poloidal   : v over n1, z over n2
    <<"raises-only-if-none-fits", e.raised => ~SomeFit(c)>>,
    <<"standard-layouts-built-and-connected", ~e.raised => e.built>> >>)
\* the same judgement of a call with grid sizes, without building the layouts (exhaustive small box incl. extents of 1)
GridCallEv(e) ==
    LET c == [size |-> e.size, max1 |-> IF e.npts[1] < e.npts[4] THEN e.npts[1] ELSE e.npts[4],
              max2 |-> IF e.npts[3] < e.npts[4] THEN e.npts[3] ELSE e.npts[4]]
    IN Verdict(e, <<
    <<"terminates", e.returned>>,
    <<"valid-result", (e.returned /\ ~e.raised) => Fits(c, e.n1, e.n2)>>,
    <<"every-process-owns-a-point", (e.returned /\ ~e.raised) =>
          /\ e.n1 <= e.npts[1] /\ e.n2 <= e.npts[4] /\ e.n2 <= e.npts[3] /\ e.n1 <= e.npts[4]>>,
    <<"raises-only-if-none-fits", (e.returned /\ e.raised) => ~SomeFit(c)>>,
    <<"finds-one-if-any-fits", (e.returned /\ ~e.raised) => SomeFit(c)>> >>)
Event(e) == CASE e.k = "call" -> CallEv(e) [] e.k = "grid" -> GridEv(e) [] e.k = "gridcall" -> GridCallEv(e) [] OTHER -> Rej(e, "unknown-event-kind")
Init == l = 1
Next == l <= Len(Trace) /\ Event(Trace[l]) /\ l' = l + 1
Accepted == TLCGet("stats").diameter = Len(Trace) + 1
=============================================================================
