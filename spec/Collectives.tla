----------------------------- MODULE Collectives -----------------------------
(***************************************************************************)
(* Blocking MPI collectives over a set of ranks.  Each rank runs a fixed    *)
(* program: a sequence of collective calls [op, comm, root, rop, width,    *)
(* bytes, rbytes, arg].  MPI matches the k-th call of every member of a     *)
(* communicator on that communicator.  A rank `Arrive`s at its next call    *)
(* and is then inside it; it `Return`s when every member of the             *)
(* communicator has arrived at the matching call, or earlier when the       *)
(* operation allows it (root of a broadcast, non-roots of gather / reduce: *)
(* a correct program may rely on neither behaviour).  TLC explores every    *)
(* interleaving = every arrival order.                                      *)
(*                                                                         *)
(* Programs and communicator membership are data (recorded from the real   *)
(* code on the simulated MPI layer, one program per rank, possibly from    *)
(* interpreters with different string-hash seeds): file env PROG_FILE,     *)
(*   [progs |-> <<seq of calls per rank>>, comms |-> [cid |-> seq of ranks]]*)
(* Ranks are 1..N here.                                                     *)
(***************************************************************************)
EXTENDS Integers, Sequences, FiniteSets, TLC, Json, IOUtils

Data  == JsonDeserialize(IOEnv.PROG_FILE)
Prog  == Data.progs
Comms == Data.comms
N     == Len(Prog)
Ranks == 1..N
Members(c) == {Comms[c][i] : i \in 1..Len(Comms[c])}

VARIABLES pc, inside
vars == <<pc, inside>>

Done(r)  == pc[r] = Len(Prog[r]) + 1
Call(r)  == Prog[r][pc[r]]
\* Pos[m][c] = program indices of rank m's calls on communicator c, in order (precomputed by the recorder,
\* and checked against the programs by PosConsistent); every call carries k = its sequence number on its communicator
Pos == Data.pos
HasKth(m, c, k) == c \in DOMAIN Pos[m] /\ k <= Len(Pos[m][c])
\* rank m has arrived at (or passed) its k-th call on c
Reached(m, c, k) == /\ HasKth(m, c, k)
                    /\ \/ Pos[m][c][k] < pc[m]
                       \/ Pos[m][c][k] = pc[m] /\ inside[m]
InstanceComplete(c, k) == \A m \in Members(c) : Reached(m, c, k)

\* may this call return before the others arrive?  (me = rank index within the communicator, 0-based)
CommRank(r, c) == (CHOOSE i \in 1..Len(Comms[c]) : Comms[c][i] = r) - 1
\* How far a rank may run ahead of an incomplete instance on one communicator is bounded by MaxLead (MPI sets no
\* bound; the unbounded product of run-ahead distances adds states but no new matching behaviour - a lost or mismatched
\* call is visible at lead 1).
CONSTANT MaxLead
MayLeaveEarly(r) ==
    LET cl == Call(r) me == CommRank(r, cl.comm) IN
    /\ \/ cl.op \in {"bcast", "Bcast"} /\ me = cl.root
       \/ cl.op \in {"gather", "Gatherv", "reduce", "Reduce"} /\ me # cl.root
    /\ (IF cl.k <= MaxLead THEN TRUE ELSE InstanceComplete(cl.comm, cl.k - MaxLead))   \* (IF: TLC splits \/ in actions)

Init == pc = [r \in Ranks |-> 1] /\ inside = [r \in Ranks |-> FALSE]
Arrive(r) == /\ ~Done(r) /\ ~inside[r]
             /\ inside' = [inside EXCEPT ![r] = TRUE] /\ UNCHANGED pc
Return(r) == /\ ~Done(r) /\ inside[r]
             /\ InstanceComplete(Call(r).comm, Call(r).k) \/ MayLeaveEarly(r)
             /\ pc' = [pc EXCEPT ![r] = @ + 1] /\ inside' = [inside EXCEPT ![r] = FALSE]
AllDone == \A r \in Ranks : Done(r)
Next == \/ \E r \in Ranks : Arrive(r) \/ Return(r)
        \/ AllDone /\ UNCHANGED vars
Spec == Init /\ [][Next]_vars /\ WF_vars(Next)

(* ---- matching: the calls joined in one instance are compatible ---- *)
KthCall(m, c, k) == Prog[m][Pos[m][c][k]]
PosConsistent == \A m \in Ranks : \A i \in 1..Len(Prog[m]) :
                    LET cl == Prog[m][i] IN HasKth(m, cl.comm, cl.k) /\ Pos[m][cl.comm][cl.k] = i
Same(a, b, f) == a[f] = b[f]
Compatible(c, k) ==
    LET ms == Members(c) a == KthCall(CHOOSE m \in ms : TRUE, c, k) IN
    \A m \in ms : LET b == KthCall(m, c, k) IN
        /\ Same(a, b, "op") /\ Same(a, b, "root") /\ Same(a, b, "rop") /\ Same(a, b, "width") /\ Same(a, b, "arg")
        /\ (a.op \in {"Alltoall", "Allgather", "Reduce", "Bcast", "Allreduce"} => a.bytes = b.bytes)
        /\ (a.op = "Alltoall" => b.rbytes = b.bytes /\ b.bytes % Cardinality(ms) = 0)
        /\ (a.op = "Allgather" => b.rbytes = b.bytes * Cardinality(ms))
        /\ (a.op = "Gatherv" => LET rt == KthCall(Comms[c][a.root + 1], c, k) IN
                                  Len(rt.rcounts) = Cardinality(ms) /\ rt.rcounts[CommRank(m, c) + 1] = b.bytes)
\* every instance that all members reach (now or later) is uniform: checked on the current front of every communicator
InstanceUniform ==
    \A c \in DOMAIN Comms : \A r \in Members(c) :
        (~Done(r) /\ inside[r] /\ Call(r).comm = c) =>
            LET k == Call(r).k IN (\A m \in Members(c) : HasKth(m, c, k)) => Compatible(c, k)
\* no member is left waiting for a call another member never makes
EveryoneComes ==
    \A r \in Ranks : (~Done(r) /\ inside[r]) =>
        LET c == Call(r).comm k == Call(r).k IN
        MayLeaveEarly(r) \/ \A m \in Members(c) : HasKth(m, c, k)
AllTerminate == <>AllDone
=============================================================================
