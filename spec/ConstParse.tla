------------------------------ MODULE ConstParse -----------------------------
(***************************************************************************)
(* get_constants (pygyro/initialisation/constants.py:124-156): the         *)
(* parameter file is a dictionary key -> literal or expression over other   *)
(* keys.  Items are popped one by one; an expression whose operands are not *)
(* all set yet is put aside (`unmatched`) and retried in the next pass; a   *)
(* pass that resolves nothing fails the assertion.  Setting rMin or rMax    *)
(* has a side effect: when both are set, rp becomes their mean              *)
(* (constants.py:47-66).  The order in which items are popped is the order  *)
(* of the file, which the property quantifies over: here it is an arbitrary *)
(* permutation.                                                             *)
(*   Terminates      : every acyclic file is parsed completely in any order *)
(*   OrderIndependent: the resulting constants do not depend on the order   *)
(*   RpKept          : an rp given in the file survives the setter side     *)
(*                     effects (it is applied once more after the loop;     *)
(*                     without that step TLC finds orders that lose it)     *)
(* Values are symbolic: a literal is its key, an expression is the tuple of *)
(* the (resolved) values of its operands.                                   *)
(***************************************************************************)
EXTENDS Integers, Sequences, FiniteSets, TLC
CONSTANTS Keys,          \* the keys present in the file
          Deps,          \* Deps[k] = set of keys the expression of k refers to ({} for a literal)
          HasRp          \* the file gives rp explicitly (as a literal)
VARIABLES todo, aside, store, order, passStart, failed, fin
vars == <<todo, aside, store, order, passStart, failed, fin>>
None == <<>>
Val(k, st) == IF Deps[k] = {} THEN <<k>> ELSE <<k, [d \in Deps[k] |-> st[d]]>>
Mean(st) == <<"mean", st["rMin"], st["rMax"]>>
\* setattr with the side effect of the rMin / rMax setters
Set(st, k, v) ==
    LET s1 == [st EXCEPT ![k] = v] IN
    IF k \in {"rMin", "rMax"} /\ s1["rMin"] # None /\ s1["rMax"] # None THEN [s1 EXCEPT !["rp"] = Mean(s1)] ELSE s1
AllKeys == Keys \cup {"rp", "rMin", "rMax"}
Init == /\ todo = Keys /\ aside = {} /\ failed = FALSE /\ order = <<>> /\ passStart = Cardinality(Keys)
        /\ store = [k \in AllKeys |-> None] /\ fin = FALSE
Resolvable(k) == \A d \in Deps[k] : d \in DOMAIN store /\ store[d] # None
Pop(k) == /\ k \in todo /\ ~failed
          /\ todo' = todo \ {k} /\ order' = Append(order, k)
          /\ IF Resolvable(k) THEN store' = Set(store, k, Val(k, store)) /\ aside' = aside
             ELSE store' = store /\ aside' = aside \cup {k}
          /\ UNCHANGED <<passStart, failed, fin>>
NextPass == /\ todo = {} /\ aside # {} /\ ~failed
            /\ IF Cardinality(aside) < passStart THEN todo' = aside /\ aside' = {} /\ passStart' = Cardinality(aside) /\ failed' = FALSE
               ELSE failed' = TRUE /\ UNCHANGED <<todo, aside, passStart>>
            /\ UNCHANGED <<store, order, fin>>
\* constants.py (after the loop): a value of rp given in the file is applied last, so the setter side effects cannot override it
Finish == /\ todo = {} /\ aside = {} /\ ~failed /\ ~fin
          /\ fin' = TRUE /\ store' = IF HasRp THEN [store EXCEPT !["rp"] = <<"rp">>] ELSE store
          /\ UNCHANGED <<todo, aside, order, passStart, failed>>
Done == todo = {} /\ aside = {} /\ ~failed /\ fin
K1 == {"rMin", "rMax", "vMax", "vMin", "kTe", "kTi", "deltaR", "deltaRN0"}
D1 == [k \in K1 |-> CASE k = "vMin" -> {"vMax"} [] k = "kTe" -> {"kTi"} [] k = "deltaRN0" -> {"kTe"} [] k = "deltaR" -> {"deltaRN0", "kTi"} [] OTHER -> {}]
K2 == K1 \cup {"rp"}
D2 == [k \in K2 |-> IF k = "rp" THEN {} ELSE D1[k]]
Next == (\E k \in todo : Pop(k)) \/ NextPass \/ Finish \/ (Done /\ UNCHANGED vars)
Spec == Init /\ [][Next]_vars /\ WF_vars(Next)
\* the processing order so far is a history variable: hidden for the safety runs
NoOrderView == <<todo, aside, store, passStart, failed, fin>>
\* the values every key must end with (dependency order evaluation, side effects applied last-writer-free: rp given => rp kept)
RECURSIVE Ref(_)
Ref(k) == IF Deps[k] = {} THEN <<k>> ELSE <<k, [d \in Deps[k] |-> Ref(d)]>>
Terminates == <>(Done \/ failed)
NeverFails == ~failed
Complete == Done => \A k \in Keys : store[k] # None
OrderIndependent == Done => \A k \in Keys \ {"rp"} : store[k] = Ref(k)
\* an explicitly given rp must survive
RpKept == (Done /\ HasRp) => store["rp"] = <<"rp">>
=============================================================================
