------------------------------ MODULE ConstSetup -----------------------------
(***************************************************************************)
(* setupCylindricalGrid / setupFromFile (pygyro/initialisation/setups.py): *)
(* after the constants were read (ConstParse), every public attribute is   *)
(* re-applied through setattr in the order of dir() - alphabetical, upper  *)
(* case first, so rMax, rMin come before rp - taking the keyword argument  *)
(* of the call when there is one and the CURRENT value otherwise.  The     *)
(* rMin / rMax setters reset rp to the mean radius (constants.py:47-66).   *)
(* The code then restores the rp read before the loop unless the call      *)
(* overrides rp, rMin or rMax (the `keep_rp` rule of fix 7392a9c; with     *)
(* KeepRule = FALSE the model is the code before that fix and TLC shows    *)
(* the loss of a custom rp).                                               *)
(*   NoOverrideNoChange : a call without radial keywords returns exactly   *)
(*                        the constants that were read                     *)
(*   OverridesApplied   : keywords are applied; a new radial domain moves  *)
(*                        rp to its mean unless rp is given too            *)
(***************************************************************************)
EXTENDS Integers, Sequences, FiniteSets, TLC, Json
CONSTANTS CustomRp,      \* the constants read carry an rp of their own (not the mean)
          KeepRule       \* the keep_rp rule is present
Attrs == <<"kTi", "rMax", "rMin", "rp", "vMax">>       \* dir() order of the attributes that matter (others behave like kTi / vMax)
Radial == {"rp", "rMin", "rMax"}
VARIABLES st, i, kw, rp0, done
vars == <<st, i, kw, rp0, done>>
Mean(s) == <<"mean", s["rMin"], s["rMax"]>>
Set(s, k, v) == LET s1 == [s EXCEPT ![k] = v] IN IF k \in {"rMin", "rMax"} THEN [s1 EXCEPT !["rp"] = Mean(s1)] ELSE s1
Read == LET s0 == [k \in {"kTi", "rMax", "rMin", "rp", "vMax"} |-> <<k>>] IN IF CustomRp THEN s0 ELSE [s0 EXCEPT !["rp"] = Mean(s0)]
New(k) == <<"new", k>>
Init == /\ st = Read /\ i = 1 /\ done = FALSE /\ rp0 = Read["rp"]
        /\ kw \in SUBSET {"kTi", "rMax", "rMin", "rp"}
Step == /\ i <= Len(Attrs)
        /\ LET k == Attrs[i] IN st' = Set(st, k, IF k \in kw THEN New(k) ELSE st[k])
        /\ i' = i + 1 /\ UNCHANGED <<kw, rp0, done>>
Finish == /\ i = Len(Attrs) + 1 /\ ~done /\ done' = TRUE
          /\ st' = IF KeepRule /\ kw \cap Radial = {} THEN [st EXCEPT !["rp"] = rp0] ELSE st
          /\ UNCHANGED <<i, kw, rp0>>
Next == Step \/ Finish \/ (done /\ UNCHANGED vars)
NoOverrideNoChange == (done /\ kw \cap Radial = {}) => \A k \in DOMAIN st : st[k] = (IF k \in kw THEN New(k) ELSE Read[k])
OverridesApplied == done =>
    /\ \A k \in kw : st[k] = New(k)
    /\ (kw \cap {"rMin", "rMax"} # {} /\ "rp" \notin kw) => st["rp"] = Mean(st)
\* replay rows: for every keyword subset, where the final rp comes from ("new" keyword, "mean" of the final domain, "rp" of the file)
Dump == done => PrintT("ROW " \o ToJson([kw |-> kw, custom |-> CustomRp, rp |-> st["rp"][1],
                                         rmin |-> st["rMin"][1], rmax |-> st["rMax"][1], kti |-> st["kTi"][1]]))
=============================================================================
