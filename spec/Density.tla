------------------------------- MODULE Density -------------------------------
(***************************************************************************)
(* The (perturbed) density is the integral over v of the spline that        *)
(* interpolates the distribution along v, minus the equilibrium at the      *)
(* point's own radius (poisson_solver.py:31-85, poisson_tools.py).           *)
(* For a profile in the spline space, f(v) = sum_j c_j N_j(v), the integral  *)
(* is sum_j c_j I_j exactly, I_j the integral of N_j over the domain         *)
(* (BSplines.Integrals).  With integer coefficients c and the integrals      *)
(* scaled to integers (IL_j = L * I_j / h, L the common denominator) the     *)
(* value is an integer: the code's float result times L/h must round to it.  *)
(***************************************************************************)
EXTENDS Integers, Sequences, SequencesExt
RhoScaled(c, IL) == FoldLeft(LAMBDA acc, j : acc + c[j] * IL[j], 0, [j \in 1..Len(c) |-> j])
\* linearity, as used by the trace specification: rho(a*c1 + c2) = a*rho(c1) + rho(c2)
Linear(c1, c2, a, IL) == RhoScaled([j \in 1..Len(c1) |-> a * c1[j] + c2[j]], IL) = a * RhoScaled(c1, IL) + RhoScaled(c2, IL)
=============================================================================
