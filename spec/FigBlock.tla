------------------------------ MODULE FigBlock -------------------------------
(***************************************************************************)
(* Grid.getBlockFromDict / getBlockForFig (pygyro/model/grid.py): the block *)
(* of a distributed field that a figure shows - per dimension either        *)
(* everything or an index range [s, e) - is cut out of every rank's local   *)
(* block, the piece sizes are gathered on the root, and the pieces are      *)
(* gathered (Gatherv) in rank order into one flat array.                    *)
(*                                                                          *)
(* ClipCode transcribes the code's clipping: it mixes local and ABSOLUTE    *)
(* bounds (`dim_s = ends`, `dim_e = ends` are global indices used as local  *)
(* slice bounds) and is right only because a numpy slice clips bounds that  *)
(* exceed the axis (NumpySlice).  ClipIsIntersection states that on every   *)
(* configuration the piece the code cuts is the intersection of the request *)
(* with the rank's block; GatheredIsRequest that the gathered array holds   *)
(* every entry of the requested global block exactly once; Sizes that the   *)
(* gathered sizes are the piece sizes (so the Gatherv counts agree).        *)
(* Every configuration of the dump box is replayed on the real code (C06).  *)
(***************************************************************************)
EXTENDS Layouts, Json, TLC
CONSTANTS Shapes, Grids, Wide      \* Wide: requests may start / end anywhere in 0..n+1; otherwise a few representative ranges
VARIABLES cfg, stage
ND == 3
Perms == {o \in [1..ND -> 1..ND] : IsPerm(o)}
None == <<-1, -1>>
\* boxes (a configuration file cannot hold tuples: CONSTANTS Shapes <- Shapes2 Grids <- Grids5)
Shapes1 == {<<3, 4, 2>>}
Shapes2 == {<<3, 4, 2>>, <<2, 3, 5>>}
Shapes3 == {<<3, 4, 2>>, <<2, 3, 5>>, <<1, 5, 3>>}
Grids3 == {<<1, 1, 1>>, <<2, 1, 1>>, <<2, 2, 1>>}
Grids5 == {<<1, 1, 1>>, <<2, 1, 1>>, <<1, 2, 1>>, <<2, 2, 1>>, <<3, 2, 1>>}
Ranges(n) == IF Wide THEN {<<s, e>> : s \in 0..n, e \in 0..(n + 1)}
             ELSE {<<0, 1>>, <<1, n>>, <<1, 1>>, <<n, n + 1>>, <<0, n + 1>>}
Req(n) == {None} \cup {q \in Ranges(n) : q[1] <= q[2]}
Init == stage = 0 /\ cfg \in [sh : Shapes, ord : Perms, P : Grids, req : {<<>>}]
Next == /\ stage = 0 /\ stage' = 1
        /\ cfg' \in {[cfg EXCEPT !.req = r] : r \in {q \in [1..ND -> UNION {Req(cfg.sh[d]) : d \in 1..ND}] : \A d \in 1..ND : q[d] \in Req(cfg.sh[d])}}
Min(a, b) == IF a < b THEN a ELSE b
Max(a, b) == IF a > b THEN a ELSE b
\* the code: local slice bounds <<lo, hi>> (hi may lie beyond the axis) or "nothing here"
ClipCode(s, e, st, en) ==
    LET ds == IF s < st THEN 0 ELSE IF s >= en THEN en ELSE s - st
        de == IF e < st THEN 0 ELSE IF e >= en THEN en ELSE e - st
    IN  IF de <= ds THEN <<0, 0>> ELSE <<ds, de>>
\* numpy: a[lo:hi] on an axis of length len
NumpySlice(b, len) == <<Min(b[1], len), Min(b[2], len)>>
\* piece of rank rc along layout position i, as LOCAL bounds [lo, hi)
CodePiece(rc, i) ==
    LET d == cfg.ord[i] st == LocStart(cfg.sh, cfg.ord, cfg.P, rc)[i] en == LocEnd(cfg.sh, cfg.ord, cfg.P, rc)[i] q == cfg.req[d]
    IN  IF q = None THEN <<0, en - st>> ELSE NumpySlice(ClipCode(q[1], q[2], st, en), en - st)
AbsPiece(rc, i) ==
    LET d == cfg.ord[i] st == LocStart(cfg.sh, cfg.ord, cfg.P, rc)[i] en == LocEnd(cfg.sh, cfg.ord, cfg.P, rc)[i] q == cfg.req[d]
        lo == IF q = None THEN st ELSE Max(q[1], st)
        hi == IF q = None THEN en ELSE Min(q[2], en)
    IN  IF hi <= lo THEN <<0, 0>> ELSE <<lo - st, hi - st>>
Idx(b) == b[1]..(b[2] - 1)
ClipIsIntersection == stage = 1 => \A rc \in RankCoords(cfg.P) : \A i \in 1..ND : Idx(CodePiece(rc, i)) = Idx(AbsPiece(rc, i))
\* the flattened piece of a rank (C order over the layout positions), as tokens of the global field
PieceShape(rc) == [i \in 1..ND |-> Max(0, CodePiece(rc, i)[2] - CodePiece(rc, i)[1])]
PieceToks(rc) ==
    LET ps == PieceShape(rc) n == Prod(ps)
    IN  [k \in 1..n |-> LET l == Unflat(k - 1, ps)
                            loc == [i \in 1..ND |-> CodePiece(rc, i)[1] + l[i]]
                        IN  Tok(cfg.sh, GlobalOf(cfg.sh, cfg.ord, cfg.P, rc, loc))]
\* ranks of the communicator in rank order: row-major over the process-grid coordinates
RankSeq == LET n == Prod(cfg.P) IN [r \in 1..n |-> Unflat(r - 1, cfg.P)]
RECURSIVE Concat(_, _)
Concat(f, r) == IF r > Len(RankSeq) THEN <<>> ELSE f[r] \o Concat(f, r + 1)
Gathered == Concat([r \in 1..Len(RankSeq) |-> PieceToks(RankSeq[r])], 1)
ReqBox == {g \in [1..ND -> 0..(CHOOSE m \in {cfg.sh[d] : d \in 1..ND} : \A d \in 1..ND : cfg.sh[d] <= m)] :
              \A d \in 1..ND : g[d] < cfg.sh[d] /\ (cfg.req[d] = None \/ (cfg.req[d][1] <= g[d] /\ g[d] < cfg.req[d][2]))}
GatheredIsRequest == stage = 1 =>
    /\ {Gathered[k] : k \in 1..Len(Gathered)} = {Tok(cfg.sh, g) : g \in ReqBox}
    /\ Len(Gathered) = Cardinality(ReqBox)
Sizes == [r \in 1..Len(RankSeq) |-> Len(PieceToks(RankSeq[r]))]
Dump == stage = 1 => PrintT("ROW " \o ToJson([sh |-> cfg.sh, ord |-> cfg.ord, P |-> cfg.P, req |-> cfg.req, sizes |-> Sizes, data |-> Gathered]))
=============================================================================
