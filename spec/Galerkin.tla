------------------------------- MODULE Galerkin ------------------------------
(***************************************************************************)
(* The per-mode radial equation of the elliptic solvers                    *)
(* (poisson_solver.py:88-484):                                             *)
(*     A phi'' + B phi' + C phi - m^2 D phi = E rho     on [rMin, rMax]    *)
(* in cylindrical measure r dr, discretised by Galerkin's method on the    *)
(* clamped spline space with Dirichlet (coefficient fixed to 0) or Neumann *)
(* (natural) conditions chosen per mode.                                   *)
(*  - mode numbers in FFT order and their squares (global-mode indexed)    *)
(*  - which coefficients are unknowns for a mode                           *)
(*  - the refusal of modes that are Neumann on both sides when C = 0       *)
(*  - manufactured solutions: for a spline phi of the space (satisfying    *)
(*    the mode's boundary conditions) the exact strong-form left-hand side *)
(*    as a polynomial per cell (module Poly).  With it as right-hand side  *)
(*    the Galerkin solution IS phi.                                        *)
(***************************************************************************)
EXTENDS BSplines
\* np.fft.fftfreq(n, 1/n)[k]  (k = 0..n-1)
ModeNumber(k, n) == IF k < (n + 1) \div 2 THEN k ELSE k - n
ModeSquared(k, n) == ModeNumber(k, n) * ModeNumber(k, n)
ModeTableOK(n) == /\ {ModeNumber(k, n) : k \in 0..(n - 1)} = (-(n \div 2))..((n - 1) \div 2)
                  /\ \A k \in 1..(n - 1) : ModeSquared(k, n) = ModeSquared(n - k, n) \/ (n % 2 = 0 /\ k = n \div 2)
                  /\ \A k \in 0..(n - 1) : (ModeNumber(k, n) = 0) <=> (k = 0)
\* unknown coefficient range (1-based, inclusive) of a mode: Dirichlet removes the end coefficient
UnknownRange(nb, lNeumann, uNeumann) == <<IF lNeumann THEN 1 ELSE 2, IF uNeumann THEN nb ELSE nb - 1>>
IllPosed(lNeumann, uNeumann, cIsZero) == lNeumann /\ uNeumann /\ cIsZero
\* phi on cell c as a polynomial in the local coordinate
PhiCell(tab, coef, c, nb) == PSumSeq([i \in 1..nb |-> PScale(coef[i], tab[i][c])], nb)
\* strong-form left-hand side on cell c;  r = r0 + br[c] + s;  Ap constant, Bp Cp Dp polynomials in r, msq = m^2
Forcing(tab, coef, br, c, nb, r0, Ap, Bp, Cp, Dp, msq) ==
    LET ph == PhiCell(tab, coef, c, nb) x0 == I(r0 + br[c])
    IN PAdd(PAdd(PScale(Ap, PDer(PDer(ph))), PMul(PShift(Bp, x0), PDer(ph))),
            PAdd(PMul(PShift(Cp, x0), ph), PScale(I(-msq), PMul(PShift(Dp, x0), ph))))
\* boundary conditions of the manufactured phi (clamped splines: phi(a) = c_1, phi'(a) ~ c_2 - c_1)
SatisfiesBC(coef, nb, lNeumann, uNeumann) ==
    /\ (IF lNeumann THEN coef[1] = coef[2] ELSE coef[1] = Zero)
    /\ (IF uNeumann THEN coef[nb] = coef[nb - 1] ELSE coef[nb] = Zero)
=============================================================================
