------------------------------ MODULE GalerkinMC -----------------------------
(* Oracle evaluation for C14/C15: mode tables for all theta counts up to NMax, and for every query of QUERY_FILE           *)
(* [id, p, ncells, r0, coef (integers), A, B, C, D (integer coefficient lists, low order first), msq, lN, uN] the exact     *)
(* strong-form left-hand side per cell of the manufactured spline solution.                                                   *)
EXTENDS Galerkin, TLC, Json, IOUtils
CONSTANT NMax
Queries == JsonDeserialize(IOEnv.QUERY_FILE)
VARIABLES kind, q
Init == \/ kind = "modes" /\ q \in 1..NMax
        \/ kind = "forcing" /\ q \in 1..Len(Queries)
Next == FALSE /\ UNCHANGED <<kind, q>>
IModes == kind = "modes" => ModeTableOK(q)
Q == Queries[q]
ToPoly(xs) == [i \in 1..Len(xs) |-> I(xs[i])]
Br == [i \in 1..(Q.ncells + 1) |-> i - 1]
Tab == Table(Br, Q.p, "clamped")
QCoef == [i \in 1..Len(Q.coef) |-> I(Q.coef[i])]
\* m^2 either given, or taken from the mode table for global mode index Q.mI of Q.nth theta points (msq = -1)
Msq == IF Q.msq >= 0 THEN Q.msq ELSE ModeSquared(Q.mI, Q.nth)
IBC == kind = "forcing" => SatisfiesBC(QCoef, Q.ncells + Q.p, Q.lN, Q.uN)
Dump == PrintT("ROW " \o ToJson(
    IF kind = "modes" THEN [kind |-> kind, n |-> q, m |-> [k \in 1..q |-> ModeNumber(k - 1, q)], msq |-> [k \in 1..q |-> ModeSquared(k - 1, q)]]
    ELSE LET tab == Tab IN [kind |-> kind, id |-> Q.id, msq |-> Msq,
          range |-> UnknownRange(Q.ncells + Q.p, Q.lN, Q.uN),
          g |-> [c \in 1..Q.ncells |-> Forcing(tab, QCoef, Br, c, Q.ncells + Q.p, Q.r0, I(Q.A), ToPoly(Q.B), ToPoly(Q.C), ToPoly(Q.D), Msq)],
          phi |-> [c \in 1..Q.ncells |-> PhiCell(tab, QCoef, c, Q.ncells + Q.p)]]))
=============================================================================
