----------------------------- MODULE GridBuffers -----------------------------
(***************************************************************************)
(* pygyro.model.grid.Grid: two or three physical arrays rotated around     *)
(* layout changes and save / restore (grid.py:29-41, 134-200), next to the *)
(* reference model the property speaks of: ONE undistributed array with a  *)
(* version and a layout, plus an optional saved copy.                      *)
(*                                                                         *)
(* Array contents are abstract: [ver, lay] ("the field in version ver,     *)
(* blocked in layout lay") or Garbage.  Garbage over-approximates: the     *)
(* code sometimes leaves usable data behind; only the arrays the spec says *)
(* are meaningful - the data array always, the save array while saved -    *)
(* are compared with the code.                                             *)
(***************************************************************************)
EXTENDS Integers, Sequences, FiniteSets

CONSTANTS LayoutNames,     \* set of layout names of the grid's layout manager
          HasSave          \* allocateSaveMemory
Garbage == [ver |-> -1, lay |-> "garbage"]
None    == [ver |-> -1, lay |-> "none"]

VARIABLES arr,             \* [0..2 -> content]   (index 2 unused when ~HasSave)
          di, bi, si,      \* _dataIdx, _buffIdx, _saveIdx
          notSaved, savedLay,
          cur, saved,      \* the reference model: current [ver, lay]; saved copy or None
          last,            \* outcome of the last operation: "ok" / "refused"
          nv               \* next fresh version number (every write produces a field never seen before)
gvars == <<arr, di, bi, si, notSaved, savedLay, cur, saved, last, nv>>

GInit(l0) ==
    /\ arr = [i \in 0..2 |-> IF i = 0 THEN [ver |-> 0, lay |-> l0] ELSE Garbage]
    /\ di = 0 /\ bi = 1 /\ si = 2
    /\ notSaved = TRUE /\ savedLay = "none"
    /\ cur = [ver |-> 0, lay |-> l0] /\ saved = None /\ last = "ok" /\ nv = 1

\* grid.py:134 setLayout.  SrcIntact(l): the hop leaves the source array untouched although no spare buffer is given
\* (same layout = copy; purely local transposition).  It is a parameter because it depends on the layout manager.
SetLayout(l, srcIntact) ==
    /\ l \in LayoutNames
    /\ IF HasSave /\ notSaved
       THEN \* three-buffer path: the save array is lent as scratch, the source stays intact
            arr' = [arr EXCEPT ![bi] = [ver |-> cur.ver, lay |-> l],
                               ![si] = IF l = cur.lay THEN @ ELSE Garbage]
       ELSE \* two-buffer path: the source is the scratch space
            arr' = [arr EXCEPT ![bi] = [ver |-> cur.ver, lay |-> l],
                               ![di] = IF srcIntact THEN @ ELSE Garbage]
    /\ di' = bi /\ bi' = di
    /\ cur' = [cur EXCEPT !.lay = l]
    /\ last' = "ok"
    /\ UNCHANGED <<si, notSaved, savedLay, saved, nv>>

\* the user overwrites the visible values (getAllData()[:] = ...)
Write ==
    /\ arr' = [arr EXCEPT ![di] = [ver |-> nv, lay |-> cur.lay]]
    /\ cur' = [cur EXCEPT !.ver = nv]
    /\ nv' = nv + 1
    /\ last' = "ok"
    /\ UNCHANGED <<di, bi, si, notSaved, savedLay, saved>>

CanSave    == HasSave /\ notSaved
CanRestore == HasSave /\ ~notSaved
CanFree    == HasSave /\ ~notSaved

Save ==      \* grid.py:168
    /\ CanSave
    /\ arr' = [arr EXCEPT ![si] = arr[di]]
    /\ saved' = cur /\ savedLay' = cur.lay /\ notSaved' = FALSE /\ last' = "ok"
    /\ UNCHANGED <<di, bi, si, cur, nv>>
Restore ==   \* grid.py:188
    /\ CanRestore
    /\ di' = si /\ si' = di
    /\ cur' = saved /\ saved' = None /\ notSaved' = TRUE /\ last' = "ok"
    /\ UNCHANGED <<arr, bi, savedLay, nv>>
Free ==      \* grid.py:180
    /\ CanFree
    /\ saved' = None /\ notSaved' = TRUE /\ last' = "ok"
    /\ UNCHANGED <<arr, di, bi, si, savedLay, cur, nv>>
\* a call whose precondition fails must be refused and must change nothing
Refused(op) ==
    /\ \/ op = "save" /\ ~CanSave
       \/ op = "restore" /\ ~CanRestore
       \/ op = "free" /\ ~CanFree
    /\ last' = "refused"
    /\ UNCHANGED <<arr, di, bi, si, notSaved, savedLay, cur, saved, nv>>

(* ---- the property, as invariants ---- *)
VisibleIsModel == arr[di] = cur
SaveProtected  == (HasSave /\ ~notSaved) => (arr[si] = saved /\ savedLay = saved.lay)
IndicesDistinct == Cardinality({di, bi, si}) = 3 /\ {di, bi, si} = {0, 1, 2}
SavedIffFlag   == (saved = None) <=> (~HasSave \/ notSaved)
NoSaveMemoryNeverTouched == ~HasSave => (si = 2 /\ arr[2] = Garbage)
=============================================================================
