--------------------------- MODULE GridBuffersApa ----------------------------
(***************************************************************************)
(* Typed copy of GridBuffers for Apalache: an INDUCTIVE invariant of the   *)
(* buffer-rotation model, checked for unboundedly many versions and any    *)
(* set of layouts (symbolically, not by enumeration):                      *)
(*    Init => IndInv        (apalache-mc check --init=Init --inv=IndInv --length=0) *)
(*    IndInv /\ Next => IndInv'  (--init=IndInit --inv=IndInv --length=1)   *)
(* IndInv implies VisibleIsModel, SaveProtected, IndicesDistinct,          *)
(* SavedIffFlag of GridBuffers.  Versions are integers >= 0; -1 marks      *)
(* garbage / none, layouts are strings.                                    *)
(***************************************************************************)
EXTENDS Integers, FiniteSets
CONSTANTS
    \* @type: Set(Str);
    LayoutNames,
    \* @type: Bool;
    HasSave
VARIABLES
    \* @type: Int -> { ver: Int, lay: Str };
    arr,
    \* @type: Int;
    di,
    \* @type: Int;
    bi,
    \* @type: Int;
    si,
    \* @type: Bool;
    notSaved,
    \* @type: Str;
    savedLay,
    \* @type: { ver: Int, lay: Str };
    cur,
    \* @type: { ver: Int, lay: Str };
    saved,
    \* @type: Int;
    nv
Garbage == [ver |-> -1, lay |-> "garbage"]
None    == [ver |-> -1, lay |-> "none"]
CInit == LayoutNames = {"A", "B", "C"} /\ HasSave \in {TRUE, FALSE}
Init == \E l0 \in LayoutNames :
    /\ arr = [i \in {0, 1, 2} |-> IF i = 0 THEN [ver |-> 0, lay |-> l0] ELSE Garbage]
    /\ di = 0 /\ bi = 1 /\ si = 2 /\ notSaved = TRUE /\ savedLay = "none"
    /\ cur = [ver |-> 0, lay |-> l0] /\ saved = None /\ nv = 1
SetLayout(l, srcIntact) ==
    /\ IF HasSave /\ notSaved
       THEN arr' = [arr EXCEPT ![bi] = [ver |-> cur.ver, lay |-> l], ![si] = IF l = cur.lay THEN @ ELSE Garbage]
       ELSE arr' = [arr EXCEPT ![bi] = [ver |-> cur.ver, lay |-> l], ![di] = IF srcIntact THEN @ ELSE Garbage]
    /\ di' = bi /\ bi' = di /\ cur' = [cur EXCEPT !.lay = l]
    /\ UNCHANGED <<si, notSaved, savedLay, saved, nv>>
Write == /\ arr' = [arr EXCEPT ![di] = [ver |-> nv, lay |-> cur.lay]] /\ cur' = [cur EXCEPT !.ver = nv] /\ nv' = nv + 1
         /\ UNCHANGED <<di, bi, si, notSaved, savedLay, saved>>
Save == /\ HasSave /\ notSaved /\ arr' = [arr EXCEPT ![si] = arr[di]]
        /\ saved' = cur /\ savedLay' = cur.lay /\ notSaved' = FALSE /\ UNCHANGED <<di, bi, si, cur, nv>>
Restore == /\ HasSave /\ ~notSaved /\ di' = si /\ si' = di /\ cur' = saved /\ saved' = None /\ notSaved' = TRUE
           /\ UNCHANGED <<arr, bi, savedLay, nv>>
Free == /\ HasSave /\ ~notSaved /\ saved' = None /\ notSaved' = TRUE /\ UNCHANGED <<arr, di, bi, si, savedLay, cur, nv>>
Next == \/ \E l \in LayoutNames : \E b \in BOOLEAN : SetLayout(l, b)
        \/ Write \/ Save \/ Restore \/ Free
TypeOK == /\ di \in {0, 1, 2} /\ bi \in {0, 1, 2} /\ si \in {0, 1, 2}
          /\ DOMAIN arr = {0, 1, 2}
          /\ \A i \in {0, 1, 2} : arr[i].ver >= -1 /\ (arr[i].lay \in LayoutNames \/ arr[i] = Garbage)
          /\ cur.ver >= 0 /\ cur.lay \in LayoutNames /\ nv >= 1 /\ cur.ver < nv
          /\ (saved = None \/ (saved.ver >= 0 /\ saved.ver < nv /\ saved.lay \in LayoutNames))
IndInv == /\ TypeOK
          /\ di # bi /\ di # si /\ bi # si
          /\ arr[di] = cur
          /\ ((HasSave /\ ~notSaved) => (arr[si] = saved /\ savedLay = saved.lay /\ saved # None))
          /\ ((~HasSave \/ notSaved) => saved = None)
          /\ (~HasSave => (si = 2 /\ notSaved /\ arr[2] = Garbage))
Lays == LayoutNames \cup {"none", "garbage"}
IndInit == /\ di \in {0, 1, 2} /\ bi \in {0, 1, 2} /\ si \in {0, 1, 2}
           /\ notSaved \in BOOLEAN /\ savedLay \in Lays /\ nv \in Int
           /\ \E v0 \in Int, v1 \in Int, v2 \in Int : \E l0 \in Lays, l1 \in Lays, l2 \in Lays :
                 arr = [i \in {0, 1, 2} |-> IF i = 0 THEN [ver |-> v0, lay |-> l0] ELSE IF i = 1 THEN [ver |-> v1, lay |-> l1]
                                                                                  ELSE [ver |-> v2, lay |-> l2]]
           /\ \E v \in Int : \E l \in Lays : cur = [ver |-> v, lay |-> l]
           /\ \E v \in Int : \E l \in Lays : saved = [ver |-> v, lay |-> l]
           /\ IndInv
VisibleIsModel == arr[di] = cur
SaveProtected == (HasSave /\ ~notSaved) => (arr[si] = saved /\ savedLay = saved.lay)
IndicesDistinct == di # bi /\ di # si /\ bi # si /\ {di, bi, si} = {0, 1, 2}
SavedIffFlag == (saved = None) <=> (~HasSave \/ notSaved)
NoSaveMemoryNeverTouched == ~HasSave => (si = 2 /\ arr[2] = Garbage)
\* the invariants of GridBuffers.tla follow from IndInv (checked as a 0-step property from IndInit)
Consequences == VisibleIsModel /\ SaveProtected /\ IndicesDistinct /\ SavedIffFlag /\ NoSaveMemoryNeverTouched
=============================================================================
