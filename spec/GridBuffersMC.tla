---------------------------- MODULE GridBuffersMC ----------------------------
(* Exhaustive model of GridBuffers with a history variable: every operation       *)
(* sequence up to MaxLen (accepted and refused calls) is a path; every path of     *)
(* length MaxLen is printed as a ROW (the operation list) for replay on real Grids.*)
EXTENDS GridBuffers, TLC, Json
CONSTANTS MaxLen, MaxVer, IntactPairs, DumpPaths
\* IntactPairs: set of <<from, to>> layout pairs whose hop leaves the source intact even without spare buffer
IntactNone == {}
IntactAB == {<<"A", "B">>, <<"B", "A">>}
VARIABLE hist
vars == <<gvars, hist>>
Init == \E l0 \in LayoutNames : GInit(l0) /\ hist = <<[op |-> "init", lay |-> l0]>>
Op(name, lay) == [op |-> name, lay |-> lay]
Next ==
    /\ Len(hist) <= MaxLen
    /\ \/ \E l \in LayoutNames : SetLayout(l, l = cur.lay \/ <<cur.lay, l>> \in IntactPairs) /\ hist' = Append(hist, Op("setLayout", l))
       \/ nv <= MaxVer /\ Write /\ hist' = Append(hist, Op("write", ""))
       \/ Save /\ hist' = Append(hist, Op("save", ""))
       \/ Restore /\ hist' = Append(hist, Op("restore", ""))
       \/ Free /\ hist' = Append(hist, Op("free", ""))
       \/ \E o \in {"save", "restore", "free"} : Refused(o) /\ hist' = Append(hist, Op(o, "refused"))
Dump == (DumpPaths /\ Len(hist) = MaxLen + 1) => PrintT("ROW " \o ToJson([hist |-> hist]))
\* the history variable is hidden for the pure state-graph run
View == gvars
=============================================================================
