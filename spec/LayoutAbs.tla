------------------------------ MODULE LayoutAbs ------------------------------
(***************************************************************************)
(* Abstract data movement: a distributed array is a global field (here the *)
(* token field: entry at global index g is Tok(sh,g)) re-blocked according *)
(* to a layout.  A transpose from any layout to any other atomically       *)
(* re-blocks the field; nothing else changes.  This is the statement of    *)
(* C01 (and the per-hop statement of C03/C04): afterwards every rank       *)
(* holds, at each local position of the destination layout, the value of   *)
(* the global array at the corresponding global index.                     *)
(***************************************************************************)
EXTENDS Layouts

\* what rank rc must hold (first LocSize entries of its array) in layout `ord`, for field version `ver`
VerStride == 1000003
\* (one pass: TLC re-evaluates LET definitions at every use, so the block is built exactly once)
Holds(sh, ord, P, rc, ver) ==
    LET ls == LocShape(sh, ord, P, rc) st == LocStart(sh, ord, P, rc) inv == InvOrd(ord)
        strd == [i \in 1..Len(ls) |-> ProdFrom(ls, i + 1)]
        gstr == [d \in 1..Len(sh) |-> ProdFrom(sh, d + 1)]
        off  == ver * VerStride
    IN  [k \in 1..Prod(ls) |->
            LET RECURSIVE Acc(_)
                Acc(d) == IF d > Len(sh) THEN off
                          ELSE (st[inv[d]] + (((k - 1) \div strd[inv[d]]) % ls[inv[d]])) * gstr[d] + Acc(d + 1)
            IN Acc(1)]

\* a recorded block (sequence of decoded tokens; -1 = not a token) is the right one
BlockIs(blk, sh, ord, P, rc, ver) == blk = Holds(sh, ord, P, rc, ver)

\* the blocks of all ranks together hold every global index exactly once (a consequence, checked in LayoutAbsMC)
Covers(sh, ord, P) ==
    LET all == UNION {{Block(sh, ord, P, rc)[k] : k \in DOMAIN Block(sh, ord, P, rc)} : rc \in RankCoords(P)}
    IN  all = 0..(Prod(sh) - 1)
DisjointBlocks(sh, ord, P) ==
    \A r1, r2 \in RankCoords(P) : r1 # r2 =>
        {Block(sh, ord, P, r1)[k] : k \in DOMAIN Block(sh, ord, P, r1)} \cap
        {Block(sh, ord, P, r2)[k] : k \in DOMAIN Block(sh, ord, P, r2)} = {}
=============================================================================
