------------------------------ MODULE LayoutBox ------------------------------
(***************************************************************************)
(* The configuration box for layout handlers: array rank, global shape,    *)
(* process grid (as the nprocs list the code receives, length 1 or 2, or any length with MaxNpLenFull) and  *)
(* a set of dimension orderings the constructor accepts (connected under   *)
(* single-hop compatibility, every process count <= every extent it must   *)
(* split).  Used to enumerate (or sample) initial states for C01-C04.      *)
(***************************************************************************)
EXTENDS LayoutAbs, TLC, Randomization

Perms(nd) == {o \in [1..nd -> 1..nd] : IsPerm(o)}
Pad(np, nd) == [i \in 1..nd |-> IF i <= Len(np) THEN np[i] ELSE 1]

RECURSIVE Reach(_, _, _)
Reach(seen, lays, P) ==
    LET more == {o \in lays \ seen : \E s \in seen : Compatible(s, o, P)}
    IN  IF more = {} THEN seen ELSE Reach(seen \cup more, lays, P)
Connected(lays, P) == lays = {} \/ Reach({CHOOSE o \in lays : TRUE}, lays, P) = lays

\* every distributed position splits an extent at least as large as its process count, in every layout
GridFits(sh, lays, P) == \A o \in lays : \A i \in 1..Len(sh) : P[i] <= sh[o[i]]

Admissible(c) ==
    /\ Len(c.np) <= c.nd - 1 \/ c.nd > 2
    /\ Len(c.np) < c.nd
    /\ Cardinality(c.lays) >= 2
    /\ GridFits(c.sh, c.lays, Pad(c.np, c.nd))
    /\ Connected(c.lays, Pad(c.np, c.nd))

\* process-grid list length: the driver's grids have 1 or 2 entries; MaxNpLenFull (cfg: MaxNpLen <- MaxNpLenFull) allows every length
\* the constructor accepts (up to nd - 1 distributed positions).  AnyFits (cfg: GridFits <- AnyFits) also admits over-decomposed grids
\* (more processes than points along a direction: blocks of length 0).
MaxNpLen(nd) == IF nd = 2 THEN 1 ELSE 2
MaxNpLenFull(nd) == nd - 1
AnyFits(sh, lays, P) == TRUE
NProcs(maxp, maxlen) == UNION {[1..k -> 1..maxp] : k \in 1..maxlen}

ShapeBox(nd, sh, maxp, maxlay) ==
    {c \in [nd : {nd}, sh : {sh}, np : NProcs(maxp, MaxNpLen(nd)),
            lays : {L \in SUBSET Perms(nd) : Cardinality(L) >= 2 /\ Cardinality(L) <= maxlay}] : Admissible(c)}
FullBox(nd, maxext, maxp, maxlay) ==
    {c \in [nd : {nd}, sh : [1..nd -> 1..maxext], np : NProcs(maxp, MaxNpLen(nd)),
            lays : {L \in SUBSET Perms(nd) : Cardinality(L) >= 2 /\ Cardinality(L) <= maxlay}] : Admissible(c)}

\* one random candidate configuration (may be inadmissible; filtered by the caller)
RandomCfg(nds, maxext, maxp, maxlay) ==
    LET nd == RandomElement(nds)
        k  == RandomElement(2..maxlay)
        ls == {RandomElement(Perms(nd)) : j \in 1..k}
    IN  [nd |-> nd, sh |-> [i \in 1..nd |-> RandomElement(1..maxext)],
         np |-> RandomElement(NProcs(maxp, MaxNpLen(nd))), lays |-> ls]
=============================================================================
