----------------------------- MODULE LayoutBoxMC -----------------------------
(* Enumerates / samples the configuration box and checks the abstract layout   *)
(* model on each configuration: in every layout the blocks of all ranks are    *)
(* disjoint and cover the global index space.  Every configuration is printed  *)
(* as a ROW so that the harness replays exactly the configurations explored.   *)
EXTENDS LayoutBox, Json
CONSTANTS ND, MaxExt, MaxP, MaxLay, SampleK, SampleNDs, SampleExt, SampleLay
VARIABLES cfg, stage
\* Two stages so that TLC's workers share the enumeration: the initial states fix the shape only (stage 0),
\* the successor states are the full configurations (stage 1) on which the invariants are evaluated.
Shapes(nd, maxext) == [1..nd -> 1..maxext]
Init == /\ stage = 0
        /\ \/ /\ SampleK = 0
              /\ cfg \in [nd : {ND}, sh : Shapes(ND, MaxExt), np : {<<1>>}, lays : {{}}]
           \/ /\ SampleK > 0
              /\ cfg \in [nd : {0}, sh : {<<i>> : i \in 1..SampleK}, np : {<<1>>}, lays : {{}}]
Next == /\ stage = 0 /\ stage' = 1
        /\ \/ /\ SampleK = 0
              /\ cfg' \in ShapeBox(ND, cfg.sh, MaxP, MaxLay)
           \/ /\ SampleK > 0
              /\ cfg' = RandomCfg(SampleNDs, SampleExt, MaxP, SampleLay)
              /\ Admissible(cfg')
P == Pad(cfg.np, cfg.nd)
EveryIndexOnce == stage = 1 => \A o \in cfg.lays : Covers(cfg.sh, o, P) /\ DisjointBlocks(cfg.sh, o, P)
SizesAgree     == stage = 1 => \A o \in cfg.lays : \A rc \in RankCoords(P) : Len(Block(cfg.sh, o, P, rc)) = LocSize(cfg.sh, o, P, rc)
Dump == stage = 1 => PrintT("ROW " \o ToJson([nd |-> cfg.nd, sh |-> cfg.sh, np |-> cfg.np, lays |-> cfg.lays]))
=============================================================================
