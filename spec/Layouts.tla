------------------------------- MODULE Layouts -------------------------------
(***************************************************************************)
(* N-dimensional layouts: a permutation of the dimensions (position ->     *)
(* dimension, 1-based) plus the process counts per position (padded with   *)
(* 1).  Defines which global indices a rank owns and in which C order:     *)
(* `Block` is the oracle for what a rank must hold after any data movement *)
(* (C01, C03, C04, C18).  Global index tuples and tokens are 0-based.      *)
(***************************************************************************)
EXTENDS Partition

PStart(n, p, k)  == Start(n, p, k)
PLen(n, p, k)    == BLen(n, p, k)
PMaxLen(n, p)    == MaxLen(n, p)

RECURSIVE ProdFrom(_, _)
ProdFrom(s, i) == IF i > Len(s) THEN 1 ELSE s[i] * ProdFrom(s, i + 1)
Prod(s) == ProdFrom(s, 1)

InvOrd(ord) == [d \in 1..Len(ord) |-> CHOOSE i \in 1..Len(ord) : ord[i] = d]
IsPerm(ord) == /\ \A i \in 1..Len(ord) : ord[i] \in 1..Len(ord)
               /\ \A i, j \in 1..Len(ord) : i # j => ord[i] # ord[j]

\* quantities by *position* i of the layout
FullShape(sh, ord)        == [i \in 1..Len(sh) |-> sh[ord[i]]]
LocStart(sh, ord, P, rc)  == [i \in 1..Len(sh) |-> PStart(sh[ord[i]], P[i], rc[i])]
LocShape(sh, ord, P, rc)  == [i \in 1..Len(sh) |-> PLen(sh[ord[i]], P[i], rc[i])]
LocEnd(sh, ord, P, rc)    == [i \in 1..Len(sh) |-> PStart(sh[ord[i]], P[i], rc[i] + 1)]
MaxShape(sh, ord, P)      == [i \in 1..Len(sh) |-> PMaxLen(sh[ord[i]], P[i])]
LocSize(sh, ord, P, rc)   == Prod(LocShape(sh, ord, P, rc))

\* 0-based multi-index (by position) of the k-th element (0-based) of a C-ordered array of shape `shape`
Unflat(k, shape) == [i \in 1..Len(shape) |-> (k \div ProdFrom(shape, i + 1)) % shape[i]]
RECURSIVE FlatFrom(_, _, _)
FlatFrom(idx, shape, i) == IF i > Len(shape) THEN 0 ELSE idx[i] * ProdFrom(shape, i + 1) + FlatFrom(idx, shape, i + 1)
Flat(idx, shape) == FlatFrom(idx, shape, 1)

\* token of a global index tuple g (by dimension): its row-major linear index in the global array
Tok(sh, g) == Flat(g, sh)

\* global index tuple (by dimension) of local multi-index l (by position)
GlobalOf(sh, ord, P, rc, l) ==
    LET inv == InvOrd(ord) st == LocStart(sh, ord, P, rc)
    IN  [d \in 1..Len(sh) |-> st[inv[d]] + l[inv[d]]]

\* the sequence of tokens rank rc holds, in the C order of its local array
Block(sh, ord, P, rc) ==
    LET ls == LocShape(sh, ord, P, rc) n == Prod(ls)
    IN  [k \in 1..n |-> Tok(sh, GlobalOf(sh, ord, P, rc, Unflat(k - 1, ls)))]

\* all rank coordinate tuples of a process grid P (by position)
RankCoords(P) == {rc \in [1..Len(P) -> 0..(CHOOSE m \in {P[i] : i \in 1..Len(P)} : \A i \in 1..Len(P) : P[i] <= m)] :
                     \A i \in 1..Len(P) : rc[i] < P[i]}

\* single-hop compatibility (layout.py:837 compatible): at most one distributed position changes dimension
Changed(o1, o2, P) == {i \in 1..Len(P) : P[i] > 1 /\ o1[i] # o2[i]}
Compatible(o1, o2, P) == Cardinality(Changed(o1, o2, P)) < 2
=============================================================================
