----------------------------- MODULE NumpyViews ------------------------------
(***************************************************************************)
(* The part of numpy's array semantics that layout.py relies on: strided   *)
(* views on flat buffers.  A buffer is a sequence of values (position p is *)
(* element p+1); a view is [off, shape, strides] (0-based offset, C order).*)
(* Operations: contiguous reshape of a flat slice, basic slicing along an  *)
(* axis (numpy clamps slice bounds to the extent), transposition, and      *)
(* element-wise assignment, which requires equal shapes (numpy would raise *)
(* "could not broadcast" - modelled as the value Error).                   *)
(***************************************************************************)
EXTENDS Integers, Sequences, SequencesExt, FiniteSets
RECURSIVE NPProdFrom(_, _)
NPProdFrom(s, i) == IF i > Len(s) THEN 1 ELSE s[i] * NPProdFrom(s, i + 1)
NPProd(s) == NPProdFrom(s, 1)
CStrides(shape) == [i \in 1..Len(shape) |-> NPProdFrom(shape, i + 1)]
Contig(start, shape) == [off |-> start, shape |-> shape, strides |-> CStrides(shape)]
VSize(v) == NPProd(v.shape)
MinI(a, b) == IF a < b THEN a ELSE b
MaxI2(a, b) == IF a > b THEN a ELSE b
\* v[..., lo:hi, ...] along axis ax (1-based), bounds clamped like numpy
SliceAx(v, ax, lo, hi) ==
    LET n == v.shape[ax] l2 == MinI(lo, n) h2 == MaxI2(l2, MinI(hi, n))
    IN [off |-> v.off + l2 * v.strides[ax], shape |-> [v.shape EXCEPT ![ax] = h2 - l2], strides |-> v.strides]
\* v[0:stops[1], 0:stops[2], ...]
RECURSIVE SliceAllFrom(_, _, _)
SliceAllFrom(v, stops, i) == IF i > Len(stops) THEN v ELSE SliceAllFrom(SliceAx(v, i, 0, stops[i]), stops, i + 1)
SliceAll(v, stops) == SliceAllFrom(v, stops, 1)
\* np.transpose(v, order): axis i of the result is axis order[i] of v (order 1-based)
Perm(v, order) == [off |-> v.off, shape |-> [i \in 1..Len(order) |-> v.shape[order[i]]], strides |-> [i \in 1..Len(order) |-> v.strides[order[i]]]]
\* 0-based buffer position of the k-th element (0-based, C order of the view's shape)
PosOf(v, k) == LET cs == CStrides(v.shape) IN
    v.off + FoldLeft(LAMBDA acc, i : acc + ((k \div cs[i]) % v.shape[i]) * v.strides[i], 0, [i \in 1..Len(v.shape) |-> i])
\* largest position a (non-empty) view touches
MaxPos(v) == v.off + FoldLeft(LAMBDA acc, i : acc + (v.shape[i] - 1) * v.strides[i], 0, [i \in 1..Len(v.shape) |-> i])
Fits(v, buflen) == VSize(v) = 0 \/ (v.off >= 0 /\ MaxPos(v) < buflen)
Error == <<-2000000001>>      \* (a sequence of integers: TLC cannot compare a string with an integer)
IsError(b) == b = Error
\* dbuf with view dv overwritten by the elements of view sv of sbuf (shapes must agree, everything must be in bounds)
Assign(dbuf, dv, sbuf, sv) ==
    IF IsError(dbuf) \/ IsError(sbuf) \/ dv.shape # sv.shape \/ ~Fits(dv, Len(dbuf)) \/ ~Fits(sv, Len(sbuf)) THEN Error
    ELSE FoldLeft(LAMBDA b, k : [b EXCEPT ![PosOf(dv, k - 1) + 1] = sbuf[PosOf(sv, k - 1) + 1]], dbuf, [k \in 1..VSize(dv) |-> k])
\* buffer[start : start+size].reshape(shape): numpy raises if the slice is shorter than the shape needs
Reshaped(buflen, start, shape) == IF start + NPProd(shape) <= buflen THEN Contig(start, shape) ELSE [off |-> -1, shape |-> shape, strides |-> CStrides(shape)]
=============================================================================
