------------------------------ MODULE Partition ------------------------------
(***************************************************************************)
(* Balanced block decomposition of an index range 0..n-1 over p processes  *)
(* (pygyro/model/layout.py:71-106, Layout.__init__).                       *)
(*                                                                         *)
(* Two things live here:                                                   *)
(*  - the split formula the code uses (Start/BLen/MaxLen), and             *)
(*  - formula-independent predicates over *tables* (IsTiling, IsBalanced)  *)
(*    which state property C02 and are what recorded tables of the real    *)
(*    code are judged by.  The formula is checked against the predicates   *)
(*    by TLC for all 1 <= p <= n <= NMax (Partition.cfg).                  *)
(***************************************************************************)
EXTENDS Integers, Sequences, FiniteSets

Small(n, p)    == n \div p
NBig(n, p)     == n % p
\* layout.py:87   starts = small_size*ranks + nBig*ranks//nRanks      k \in 0..p
Start(n, p, k) == Small(n, p) * k + (NBig(n, p) * k) \div p
BLen(n, p, k)  == Start(n, p, k + 1) - Start(n, p, k)
\* layout.py:97
MaxLen(n, p)   == IF NBig(n, p) > 0 THEN Small(n, p) + 1 ELSE Small(n, p)

StartsTable(n, p) == [k \in 1..p |-> Start(n, p, k - 1)]
LensTable(n, p)   == [k \in 1..p |-> BLen(n, p, k - 1)]

(* ---- formula-independent statement of the property (tables are 1-based sequences) ---- *)
SeqMax(s) == CHOOSE m \in {s[i] : i \in 1..Len(s)} : \A i \in 1..Len(s) : s[i] <= m
SeqMin(s) == CHOOSE m \in {s[i] : i \in 1..Len(s)} : \A i \in 1..Len(s) : s[i] >= m

\* no gap, no overlap, in rank order, covering exactly 0..n-1
IsTiling(starts, lens, n) ==
    /\ Len(starts) = Len(lens) /\ Len(starts) >= 1
    /\ starts[1] = 0
    /\ \A k \in 1..Len(lens) : lens[k] >= 0
    /\ \A k \in 1..(Len(starts) - 1) : starts[k + 1] = starts[k] + lens[k]
    /\ starts[Len(starts)] + lens[Len(lens)] = n
IsBalanced(lens)   == SeqMax(lens) - SeqMin(lens) <= 1
NonEmptyBlocks(lens) == \A k \in 1..Len(lens) : lens[k] >= 1
\* every global index has exactly one owner
OwnersOf(starts, lens, g) == {k \in 1..Len(starts) : starts[k] <= g /\ g < starts[k] + lens[k]}
ExactlyOnce(starts, lens, n) == \A g \in 0..(n - 1) : Cardinality(OwnersOf(starts, lens, g)) = 1

Owner(n, p, g) == CHOOSE k \in 0..(p - 1) : Start(n, p, k) <= g /\ g < Start(n, p, k + 1)
=============================================================================
