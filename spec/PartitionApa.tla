---------------------------- MODULE PartitionApa -----------------------------
(* Unbounded (SMT, integers) check of the split formula of Partition.tla: for ALL n >= p >= 1 and 0 <= k < p. *)
EXTENDS Integers
VARIABLES
    \* @type: Int;
    n,
    \* @type: Int;
    p,
    \* @type: Int;
    k
Small == n \div p
NBig  == n % p
Start(j) == Small * j + (NBig * j) \div p
BLen(j)  == Start(j + 1) - Start(j)
Init == /\ n \in Int /\ p \in Int /\ k \in Int
        /\ p >= 1 /\ n >= p /\ k >= 0 /\ k < p
Next == UNCHANGED <<n, p, k>>
Tiles    == Start(0) = 0 /\ Start(p) = n
Balanced == BLen(k) = Small \/ BLen(k) = Small + 1
NonEmpty == BLen(k) >= 1
Monotone == Start(k) <= Start(k + 1)
MaxLenOK == BLen(k) <= (IF NBig > 0 THEN Small + 1 ELSE Small)
All == Tiles /\ Balanced /\ NonEmpty /\ Monotone /\ MaxLenOK
=============================================================================
