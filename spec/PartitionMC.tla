----------------------------- MODULE PartitionMC -----------------------------
(* Model for Partition: every (n,p) with 1 <= p <= n <= NMax is an initial state;   *)
(* the split formula of the code is checked against the formula-independent       *)
(* statement of C02.  No transitions.                                              *)
EXTENDS Partition, TLC
(* ---- model: every (n,p) of the box is an initial state; no transitions ---- *)
CONSTANT NMax
VARIABLES n, p
Init == n \in 1..NMax /\ p \in 1..n
Next == FALSE /\ UNCHANGED <<n, p>>

FormulaTiles     == IsTiling(StartsTable(n, p), LensTable(n, p), n)
FormulaOnce      == ExactlyOnce(StartsTable(n, p), LensTable(n, p), n)
FormulaBalanced  == IsBalanced(LensTable(n, p))
FormulaNonEmpty  == NonEmptyBlocks(LensTable(n, p))
FormulaMax       == MaxLen(n, p) = SeqMax(LensTable(n, p))
\* the lemma behind it: consecutive floors differ by 0 or 1
FloorLemma       == \A k \in 0..(p - 1) : ((NBig(n, p) * (k + 1)) \div p) - ((NBig(n, p) * k) \div p) \in {0, 1}
=============================================================================
