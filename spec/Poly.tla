-------------------------------- MODULE Poly ---------------------------------
(* Polynomials in one variable with rational coefficients: sequences <<c0, c1, ..., cn>> (low order first). *)
EXTENDS Rat
RECURSIVE RSumSeq(_, _)
RSumSeq(rs, n) == IF n = 0 THEN Zero ELSE RAdd(rs[n], RSumSeq(rs, n - 1))
PZero == <<Zero>>
POne  == <<One>>
Coef(p, i) == IF i >= 1 /\ i <= Len(p) THEN p[i] ELSE Zero
MaxI(a, b) == IF a > b THEN a ELSE b
PAdd(p, q)    == [i \in 1..MaxI(Len(p), Len(q)) |-> RAdd(Coef(p, i), Coef(q, i))]
PScale(r, p)  == [i \in 1..Len(p) |-> RMul(r, p[i])]
PSub(p, q)    == PAdd(p, PScale(I(-1), q))
\* p(s) * (a + b s)
PMulLin(p, a, b) == [i \in 1..(Len(p) + 1) |-> RAdd(RMul(a, Coef(p, i)), RMul(b, Coef(p, i - 1)))]
\* product of two polynomials
PMul(p, q)    == [k \in 1..(Len(p) + Len(q) - 1) |->
                    RSumSeq([i \in 1..Len(p) |-> IF k - i + 1 >= 1 /\ k - i + 1 <= Len(q) THEN RMul(p[i], q[k - i + 1]) ELSE Zero], Len(p))]
PDer(p)       == IF Len(p) = 1 THEN PZero ELSE [i \in 1..(Len(p) - 1) |-> RMul(I(i), p[i + 1])]
\* antiderivative with zero constant term
PInt(p)       == [i \in 1..(Len(p) + 1) |-> IF i = 1 THEN Zero ELSE RDiv(p[i - 1], I(i - 1))]
RECURSIVE Horner(_, _, _)
Horner(p, x, i) == IF i > Len(p) THEN Zero ELSE RAdd(p[i], RMul(x, Horner(p, x, i + 1)))
PEval(p, x)   == Horner(p, x, 1)
\* p(x0 + s) as a polynomial in s (Horner with the linear factor x0 + s)
RECURSIVE PShiftFrom(_, _, _)
PShiftFrom(p, x0, i) == IF i > Len(p) THEN PZero ELSE PAdd(<<p[i]>>, PMulLin(PShiftFrom(p, x0, i + 1), x0, One))
PShift(p, x0) == PShiftFrom(p, x0, 1)
\* equality as polynomials (ignoring trailing zero coefficients)
PEq(p, q)     == \A i \in 1..MaxI(Len(p), Len(q)) : Coef(p, i) = Coef(q, i)
IsZeroP(p)    == \A i \in 1..Len(p) : p[i] = Zero
RECURSIVE PSumSeq(_, _)
PSumSeq(ps, n) == IF n = 0 THEN PZero ELSE PAdd(ps[n], PSumSeq(ps, n - 1))
=============================================================================
