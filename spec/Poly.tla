-------------------------------- MODULE Poly ---------------------------------
(* Polynomials in one variable with rational coefficients: sequences <<c0, c1, ..., cn>> (low order first). *)
EXTENDS Rat
PZero == <<Zero>>
POne  == <<One>>
Coef(p, i) == IF i >= 1 /\ i <= Len(p) THEN p[i] ELSE Zero
MaxI(a, b) == IF a > b THEN a ELSE b
PAdd(p, q)    == [i \in 1..MaxI(Len(p), Len(q)) |-> RAdd(Coef(p, i), Coef(q, i))]
PScale(r, p)  == [i \in 1..Len(p) |-> RMul(r, p[i])]
PSub(p, q)    == PAdd(p, PScale(I(-1), q))
\* p(s) * (a + b s)
PMulLin(p, a, b) == [i \in 1..(Len(p) + 1) |-> RAdd(RMul(a, Coef(p, i)), RMul(b, Coef(p, i - 1)))]
PDer(p)       == IF Len(p) = 1 THEN PZero ELSE [i \in 1..(Len(p) - 1) |-> RMul(I(i), p[i + 1])]
\* antiderivative with zero constant term
PInt(p)       == [i \in 1..(Len(p) + 1) |-> IF i = 1 THEN Zero ELSE RDiv(p[i - 1], I(i - 1))]
RECURSIVE Horner(_, _, _)
Horner(p, x, i) == IF i > Len(p) THEN Zero ELSE RAdd(p[i], RMul(x, Horner(p, x, i + 1)))
PEval(p, x)   == Horner(p, x, 1)
\* equality as polynomials (ignoring trailing zero coefficients)
PEq(p, q)     == \A i \in 1..MaxI(Len(p), Len(q)) : Coef(p, i) = Coef(q, i)
IsZeroP(p)    == \A i \in 1..Len(p) : p[i] = Zero
RECURSIVE PSumSeq(_, _)
PSumSeq(ps, n) == IF n = 0 THEN PZero ELSE PAdd(ps[n], PSumSeq(ps, n - 1))
RECURSIVE RSumSeq(_, _)
RSumSeq(rs, n) == IF n = 0 THEN Zero ELSE RAdd(rs[n], RSumSeq(rs, n - 1))
=============================================================================
