------------------------------ MODULE ProcGrid -------------------------------
(***************************************************************************)
(* compute_2d_process_grid_from_max (pygyro/model/process_grid.py:37-120)  *)
(* transcribed statement by statement as a state machine.  The code        *)
(* compares ratios in floating point; here ratio = max(d1,d2)/min(d1,d2)   *)
(* with d1 = max1/n1, d2 = max2/n2 is kept as the exact fraction hi/lo     *)
(* (hi = max(max1*n2, max2*n1), lo = min(...)) and compared by             *)
(* cross-multiplication.                                                   *)
(*   Terminates    : every behaviour reaches "done" or "raised"            *)
(*   ValidResult   : done => n1*n2 = size /\ 1 <= n1 <= max1 /\ 1 <= n2 <= max2 *)
(*   RaisesIffNone : raised <=> no divisor pair fits                       *)
(***************************************************************************)
EXTENDS Integers, Sequences, TLC, Json
CONSTANTS MaxM, MaxSize
VARIABLES max1, max2, size, n1, n2, hi, lo, m1, m2, pc, steps
vars == <<max1, max2, size, n1, n2, hi, lo, m1, m2, pc, steps>>
Min2(a, b) == IF a < b THEN a ELSE b
Max2(a, b) == IF a > b THEN a ELSE b
Hi(a, b) == Max2(max1 * b, max2 * a)      \* ratio of (a,b) = Hi/Lo
Lo(a, b) == Min2(max1 * b, max2 * a)
Init == /\ max1 \in 1..MaxM /\ max2 \in 1..MaxM /\ size \in 1..MaxSize
        /\ n1 = 1 /\ n2 = size /\ hi = 0 /\ lo = 1 /\ m1 = 0 /\ m2 = 0 /\ pc = "p1_test" /\ steps = 0
Tick == steps' = steps + 1
K == UNCHANGED <<max1, max2, size>>
\* while (nprocs2 > max_proc2):
P1Test == /\ pc = "p1_test" /\ K /\ Tick
          /\ IF n2 > max2 THEN n1' = n1 + 1 /\ pc' = "p1_inner" ELSE n1' = n1 /\ pc' = "ratio"
          /\ UNCHANGED <<n2, hi, lo, m1, m2>>
\*     while (nprocs1 <= min(mpi_size, max_proc1) and mpi_size % nprocs1 != 0): nprocs1 += 1
P1Inner == /\ pc = "p1_inner" /\ K /\ Tick
           /\ IF n1 <= Min2(size, max1) /\ size % n1 # 0 THEN n1' = n1 + 1 /\ pc' = "p1_inner"
              ELSE n1' = n1 /\ pc' = "p1_check"
           /\ UNCHANGED <<n2, hi, lo, m1, m2>>
\*     if (nprocs1 > min(mpi_size, max_proc1)): raise ;  nprocs2 = mpi_size//nprocs1
P1Check == /\ pc = "p1_check" /\ K /\ Tick
           /\ IF n1 > Min2(size, max1) THEN pc' = "raised" /\ n2' = n2
              ELSE n2' = size \div n1 /\ pc' = "p1_test"
           /\ UNCHANGED <<n1, hi, lo, m1, m2>>
\* ratio = max(divisions1, divisions2) / min(divisions1, divisions2)
Ratio == /\ pc = "ratio" /\ K /\ Tick
         /\ hi' = Hi(n1, n2) /\ lo' = Lo(n1, n2) /\ m1' = n1 + 1 /\ pc' = "p2_inner"
         /\ UNCHANGED <<n1, n2, m2>>
\*     new_n1 = nprocs1+1 ; while (new_n1 < max_proc1 and mpi_size % new_n1 != 0): new_n1 += 1
P2Inner == /\ pc = "p2_inner" /\ K /\ Tick
           /\ IF m1 < max1 /\ size % m1 # 0 THEN m1' = m1 + 1 /\ pc' = "p2_inner" /\ m2' = m2
              ELSE m1' = m1 /\ m2' = size \div m1 /\ pc' = "p2_check"
           /\ UNCHANGED <<n1, n2, hi, lo>>
\*     if (new_n1 > min(mpi_size, max_proc1)): break
\*     if (new_n2 <= max_proc2): if (new_ratio < ratio): accept  else: break     (else: loop again)
P2Check == /\ pc = "p2_check" /\ K /\ Tick
           /\ IF m1 > Min2(size, max1) THEN pc' = "done" /\ UNCHANGED <<n1, n2, hi, lo, m1, m2>>
              ELSE IF m2 <= max2
                   THEN IF Hi(m1, m2) * lo < hi * Lo(m1, m2)
                        THEN /\ n1' = m1 /\ n2' = m2 /\ hi' = Hi(m1, m2) /\ lo' = Lo(m1, m2)
                             /\ m1' = m1 + 1 /\ m2' = m2 /\ pc' = "p2_inner"
                        ELSE pc' = "done" /\ UNCHANGED <<n1, n2, hi, lo, m1, m2>>
                   ELSE /\ m1' = n1 + 1 /\ pc' = "p2_inner" /\ UNCHANGED <<n1, n2, hi, lo, m2>>
Terminal == pc \in {"done", "raised"}
Next == P1Test \/ P1Inner \/ P1Check \/ Ratio \/ P2Inner \/ P2Check \/ (Terminal /\ UNCHANGED vars)
Spec == Init /\ [][Next]_vars /\ WF_vars(Next)

Fits(a, b) == a * b = size /\ a >= 1 /\ a <= max1 /\ b >= 1 /\ b <= max2
SomeFit == \E a \in 1..size : size % a = 0 /\ Fits(a, size \div a)
ValidResult   == pc = "done" => Fits(n1, n2)
RaisesIffNone == (pc = "raised" => ~SomeFit) /\ (pc = "done" => SomeFit)
StepBound     == steps <= 3 * (MaxSize + MaxM) + 10
Terminates    == <>Terminal
Dump == Terminal => PrintT("ROW " \o ToJson([max1 |-> max1, max2 |-> max2, size |-> size, raised |-> pc = "raised", n1 |-> n1, n2 |-> n2]))
=============================================================================
