--------------------------------- MODULE Rat ---------------------------------
(***************************************************************************)
(* Exact rational arithmetic on normalised pairs <<n, d>>, d > 0,          *)
(* gcd(n, d) = 1.  TLC integers are 32-bit and TLC raises an error on      *)
(* overflow (it does not wrap), so an overflow is a machinery failure, not *)
(* a wrong verdict; operations cross-cancel before multiplying to keep     *)
(* intermediates small.                                                    *)
(***************************************************************************)
EXTENDS Integers, Sequences
RECURSIVE Gcd(_, _)
Gcd(a, b) == IF b = 0 THEN a ELSE Gcd(b, a % b)
IAbs(a) == IF a < 0 THEN -a ELSE a
Norm(n, d) == LET g == Gcd(IAbs(n), IAbs(d)) s == IF d < 0 THEN -1 ELSE 1
              IN IF n = 0 THEN <<0, 1>> ELSE <<s * (n \div g), s * (d \div g)>>
I(n)   == <<n, 1>>
Zero   == <<0, 1>>
One    == <<1, 1>>
RAdd(a, b) == IF a[1] = 0 THEN b ELSE IF b[1] = 0 THEN a ELSE
              LET g == Gcd(a[2], b[2]) IN Norm(a[1] * (b[2] \div g) + b[1] * (a[2] \div g), (a[2] \div g) * b[2])
RNeg(a)    == <<-a[1], a[2]>>
RSub(a, b) == RAdd(a, RNeg(b))
RMul(a, b) == IF a[1] = 0 \/ b[1] = 0 THEN Zero ELSE
              LET g1 == Gcd(IAbs(a[1]), b[2]) g2 == Gcd(IAbs(b[1]), a[2])
              IN <<(a[1] \div g1) * (b[1] \div g2), (a[2] \div g2) * (b[2] \div g1)>>
RInv(a)    == IF a[1] < 0 THEN <<-a[2], -a[1]>> ELSE <<a[2], a[1]>>
RDiv(a, b) == RMul(a, RInv(b))
RLt(a, b)  == a[1] * b[2] < b[1] * a[2]
RLe(a, b)  == a[1] * b[2] <= b[1] * a[2]
RGe0(a)    == a[1] >= 0
RFloor(a)  == IF a[1] >= 0 THEN a[1] \div a[2] ELSE -((-a[1] + a[2] - 1) \div a[2])
=============================================================================
