----------------------------- MODULE Reductions ------------------------------
(***************************************************************************)
(* Diagnostics and global reductions (pygyro/diagnostics/norms.py,         *)
(* energy.py, diagnostic_collector.py, grid.py:335-404).                   *)
(* The serial reference: trapezoid quadrature in r and v, rectangle rule   *)
(* in theta and z, of the GLOBAL field.  Everything is integer: the        *)
(* harness uses integer-valued coordinates (dq = dz = 1) and fields, and   *)
(* quantities are scaled by the common factor (4/(dq dz) for 4-D, 2/(dq dz)*)
(* for 3-D; kinetic energy carries an extra 1/2), so float results of the  *)
(* code are exact and compared for equality.                               *)
(*   field at global index g (by dimension; r,theta,z[,v]):                *)
(*       re = (Tok(g) % 7) - 3,  im = (Tok(g) % 5) - 2   (FieldKind "tok") *)
(*       re = 1, im = 0                                  (FieldKind "one") *)
(*       re = Tok(g), im = 0   (FieldKind "ramp": every rank has its own local extrema) *)
(***************************************************************************)
EXTENDS Layouts, TLC, SequencesExt

TokOf(sh, g) == Flat(g, sh)
Re(kind, t) == IF kind = "one" THEN 1 ELSE IF kind = "ramp" THEN t ELSE (t % 7) - 3
Im(kind, t) == IF kind \in {"one", "ramp"} THEN 0 ELSE (t % 5) - 2
Abs(x) == IF x < 0 THEN -x ELSE x

\* twice the trapezoid weight of point i (1-based) of grid x
W2(x, i) == LET n == Len(x) IN IF i = 1 THEN x[2] - x[1] ELSE IF i = n THEN x[n] - x[n - 1] ELSE x[i + 1] - x[i - 1]

\* one term of the scaled serial quadrature at token t (0-based row-major index of the global array);
\* cplx: the field has an imaginary part (complex storage)
Term(q, kind, cplx, sh, r, v, t) ==
    LET nd == Len(sh)
        g1 == t \div ProdFrom(sh, 2)                  \* radial index
        g4 == IF nd = 4 THEN t % sh[4] ELSE 0         \* velocity index
        re == Re(kind, t) im == IF cplx THEN Im(kind, t) ELSE 0
        wr == W2(r, g1 + 1) * r[g1 + 1]
        wv == IF nd = 4 THEN W2(v, g4 + 1) ELSE 1
        vv == IF nd = 4 THEN v[g4 + 1] ELSE 0
    IN CASE q = "l2" -> (re * re + im * im) * wr * wv
         [] q = "l1" -> Abs(re) * wr * wv
         [] q = "npart" -> re * wr * wv
         [] q = "ke" -> re * wr * wv * vv * vv
\* scaled serial value: code value * (4 or 2)/(dq dz)   [ke: * 8/(dq dz)]
Serial(q, kind, cplx, sh, r, v) ==
    FoldLeft(LAMBDA acc, t : acc + Term(q, kind, cplx, sh, r, v, t - 1), 0, [t \in 1..Prod(sh) |-> t])

\* analytic volume factor for the field one, same scaling:
\*   trapezoid of r dr is exact: (rmax^2 - rmin^2)/2 ; of dv: vmax - vmin ; rectangle: ntheta * nz
\*   4-D: 4 * (rmax^2-rmin^2)/2 * (vmax-vmin) * nq*nz ; 3-D: 2 * (rmax^2-rmin^2)/2 * nq*nz
Volume(sh, r, v) ==
    LET rr == r[Len(r)] * r[Len(r)] - r[1] * r[1]
    IN IF Len(sh) = 4 THEN 2 * rr * (v[Len(v)] - v[1]) * sh[2] * sh[3] ELSE rr * sh[2] * sh[3]

\* min / max of the real part over the global field, optionally on a slice: fix = sequence of <<dimension, index>>
InSlice(t, sh, strd, fix) == \A i \in 1..Len(fix) : (t \div strd[fix[i][1]]) % sh[fix[i][1]] = fix[i][2]
SliceVals(kind, sh, fix) == LET strd == [d \in 1..Len(sh) |-> ProdFrom(sh, d + 1)]
                            IN {Re(kind, t) : t \in {t2 \in 0..(Prod(sh) - 1) : InSlice(t2, sh, strd, fix)}}
SetMin(S) == CHOOSE m \in S : \A x \in S : m <= x
SetMax(S) == CHOOSE m \in S : \A x \in S : m >= x

\* the time slot a step belongs to (diagnostic_collector.py:56-57): step number k = t / dt
Slot(k, saveStep) == k % saveStep
=============================================================================
