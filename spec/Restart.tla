------------------------------- MODULE Restart -------------------------------
(***************************************************************************)
(* Bookkeeping of the driver (fullSimulation.py:100-104, 196-318) around   *)
(* checkpoints, the diagnostics file and restart, as a state transformer   *)
(* on records so that the same operators serve the exhaustive model        *)
(* (RestartMC) and trace validation of real driver runs (C18Trace).        *)
(*                                                                         *)
(* A folder is  [files : set of checkpoint times, cont : time -> number of *)
(* steps the stored field has undergone, lines : sequence of times in the  *)
(* diagnostics file, fault : BOOLEAN].  Times are integer multiples of dt. *)
(* The field is abstracted to "number of steps applied" (C05 and C10-C16   *)
(* are about what a step does).  The diagnostic collector has S slots;     *)
(* collect(t) writes slot (t/dt) mod S (diagnostic_collector.py:56).       *)
(***************************************************************************)
EXTENDS Integers, Sequences, FiniteSets

EmptyFolder == [files |-> {}, cont |-> [x \in {} |-> 0], lines |-> <<>>, fault |-> FALSE]
SetMax(S) == CHOOSE m \in S : \A x \in S : x <= m
Put(f, k, v) == [x \in DOMAIN f \cup {k} |-> IF x = k THEN v ELSE f[x]]

\* restart set-up picks the checkpoint with the numerically largest time (setups.py:202-212), fresh start otherwise
ResumeTime(folder) == IF folder.files = {} THEN 0 ELSE SetMax(folder.files)

\* state of one driver run
Setup(folder, tEnd, S, dt) ==
    LET t0 == ResumeTime(folder)
        fresh == folder.files = {}
        ti == t0 \div dt
        applied == IF fresh THEN 0 ELSE folder.cont[t0]
        slots0 == [i \in 0..(S - 1) |-> IF i = ti % S THEN t0 ELSE -1]          \* initial collect(t0)
    IN [t |-> t0, ti |-> ti, tN |-> tEnd \div dt, S |-> S, dt |-> dt, nLoops |-> 0, startPrint |-> ti % S,
        slots |-> slots0, applied |-> applied,
        \* a fresh run writes checkpoint 0 and the line of slot 0
        folder |-> IF fresh THEN [folder EXCEPT !.files = {0}, !.cont = Put(folder.cont, 0, 0), !.lines = <<slots0[0]>>]
                   ELSE folder]

\* lines printed for loop indices i = from..to-1 of the current window: the step computed in the iteration with
\* ti mod S = i sits in slot (i+1) mod S
WindowLines(slots, from, to, S) == [j \in 1..(IF to > from THEN to - from ELSE 0) |-> slots[(from + j - 1 + 1) % S]]

\* one iteration of the time loop (fullSimulation.py:221-302)
Iter(s) ==
    LET t1 == s.t + s.dt
        slots1 == [s.slots EXCEPT ![(t1 \div s.dt) % s.S] = t1]
        save == s.ti % s.S = s.S - 1
        f == s.folder
        f1 == IF save
              THEN [f EXCEPT !.files = @ \cup {t1}, !.cont = Put(f.cont, t1, s.applied + 1),
                             !.lines = @ \o WindowLines(slots1, s.startPrint, s.S, s.S)]
              ELSE f
    IN [s EXCEPT !.t = t1, !.slots = slots1, !.applied = @ + 1, !.folder = f1,
                 !.startPrint = IF save THEN 0 ELSE @, !.nLoops = @ + 1, !.ti = @ + 1]

\* after the loop (fullSimulation.py:306-318): flush the incomplete window and write the final checkpoint
Finish(s) ==
    IF s.ti % s.S # 0
    THEN [s EXCEPT !.folder = [s.folder EXCEPT !.files = @ \cup {s.t}, !.cont = Put(s.folder.cont, s.t, s.applied),
                                                !.lines = @ \o WindowLines(s.slots, s.startPrint, s.ti % s.S, s.S)]]
    ELSE s
RECURSIVE Loop(_)
Loop(s) == IF s.ti < s.tN THEN Loop(Iter(s)) ELSE s
\* a complete run of the driver on `folder` up to time tEnd with save interval S
Run(folder, tEnd, S, dt) == Finish(Loop(Setup(folder, tEnd, S, dt))).folder

(* ---- what the property demands of a folder after runs that together reached step K ---- *)
Range(q) == {q[i] : i \in 1..Len(q)}
OneLinePerStepInOrder(folder, K, dt) == folder.lines = [j \in 1..(K + 1) |-> (j - 1) * dt]
LatestIsFinal(folder, K, dt) == ResumeTime(folder) = K * dt /\ folder.cont[K * dt] = K
ContentsRight(folder, dt) == \A x \in folder.files : folder.cont[x] * dt = x
=============================================================================
