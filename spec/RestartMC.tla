------------------------------ MODULE RestartMC ------------------------------
(* All ways of reaching KMax steps by a sequence of runs (stop points), for a fixed save interval S:      *)
(* after every run the folder must be the one an unsplit run to the same time produces.                   *)
EXTENDS Restart, TLC
CONSTANTS KMax, S, DT
VARIABLES folder, k
Init == folder = EmptyFolder /\ k = -1
Next == \E k2 \in (IF k < 0 THEN 0 ELSE k)..KMax :      \* k2 = k: a restart that has nothing left to do
           /\ k2 > k \/ k >= 0
           /\ folder' = Run(folder, k2 * DT, S, DT) /\ k' = k2
\* a split run leaves extra checkpoints at its stop points; everything else is as in the unsplit run
SplitEqualsUnsplit == k >= 0 =>
    LET u == Run(EmptyFolder, k * DT, S, DT) IN
    /\ folder.lines = u.lines /\ u.files \subseteq folder.files
    /\ ResumeTime(folder) = ResumeTime(u) /\ folder.cont[ResumeTime(folder)] = u.cont[ResumeTime(u)]
    /\ \A x \in u.files : folder.cont[x] = u.cont[x]
Lines     == k >= 0 => OneLinePerStepInOrder(folder, k, DT)
Latest    == k >= 0 => LatestIsFinal(folder, k, DT)
Contents  == ContentsRight(folder, DT)
=============================================================================
