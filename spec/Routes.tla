------------------------------- MODULE Routes --------------------------------
(***************************************************************************)
(* The route search of LayoutManager._makeConnectionMap (layout.py:241-329)*)
(* transcribed: a Dijkstra variant run from every source in dictionary     *)
(* order, relaxing the neighbours of `via` in adjacency-list order,        *)
(* updating both directions, with the lexicographic tie-break on routes.   *)
(* The one thing the code leaves to the interpreter is WHICH node          *)
(* `min(unvisitedNodes, key=...)` returns among equally near nodes: it     *)
(* iterates over a set of strings, whose order depends on the interpreter's*)
(* string-hash seed - and every MPI rank is its own interpreter.  Here     *)
(* that choice is nondeterministic, and two runs (A then B) with           *)
(* independent choices are carried in one state.                           *)
(*   RouteMapUnique : both runs end with the same route and distance maps  *)
(*                    (every rank picks the same route, whatever its seed) *)
(*   RouteValid     : every route is a path of direct connections of       *)
(*                    length = distance, ending at the destination, and the*)
(*                    distance is the true shortest distance (BFS)         *)
(*   FullIffConnected: the constructor's `full` flag is true iff the graph *)
(*                    is connected                                         *)
(* Nodes are 1..N = the layout names in lexicographic order (Python list   *)
(* comparison of routes compares names); `ord` is the dictionary order.    *)
(***************************************************************************)
EXTENDS Integers, Sequences, FiniteSets, TLC, SequencesExt, FiniteSetsExt
CONSTANT N
Nodes == 1..N
Pairs == {p \in Nodes \X Nodes : p[1] < p[2]}
Perms == {s \in [1..N -> Nodes] : \A i, j \in 1..N : i # j => s[i] # s[j]}
INF == N + 1
E(x, y) == IF x < y THEN <<x, y>> ELSE <<y, x>>
RECURSIVE LexLt(_, _)
LexLt(a, b) == IF a = <<>> THEN b # <<>> ELSE IF b = <<>> THEN FALSE
               ELSE IF a[1] < b[1] THEN TRUE ELSE IF a[1] > b[1] THEN FALSE ELSE LexLt(Tail(a), Tail(b))
VARIABLES edges, ord, A, B
rvars == <<edges, ord, A, B>>
PosOf(o, x) == CHOOSE i \in 1..N : o[i] = x
Adj(e, o, x) == SetToSortSeq({y \in Nodes : y # x /\ E(x, y) \in e}, LAMBDA u, v : PosOf(o, u) < PosOf(o, v))
\* a run: si = position of the current source in ord (N+1 = finished), unv = unvisited set, d = distances, r = routes
InitRun(e, o) ==
  [si |-> 1, unv |-> Nodes \ {o[1]},
   d |-> [s \in Nodes |-> [t \in Nodes |-> IF s # t /\ E(s, t) \in e THEN 1 ELSE INF]],
   r |-> [s \in Nodes |-> [t \in Nodes |-> IF s # t /\ E(s, t) \in e THEN <<t>> ELSE <<>>]]]
RECURSIVE Relax(_, _, _, _, _)
Relax(run, src, via, unv, aims) ==
  IF aims = <<>> THEN run
  ELSE LET aim == Head(aims) d == run.d r == run.r IN
    IF aim \notin unv THEN Relax(run, src, via, unv, Tail(aims))
    ELSE IF d[src][via] + d[via][aim] < d[src][aim] THEN
       LET d2 == [d EXCEPT ![src][aim] = d[src][via] + d[via][aim], ![aim][src] = d[via][src] + d[aim][via]]
           r2 == [r EXCEPT ![src][aim] = r[src][via] \o r[via][aim], ![aim][src] = r[aim][via] \o r[via][src]]
       IN Relax([run EXCEPT !.d = d2, !.r = r2], src, via, unv, Tail(aims))
    ELSE IF d[src][via] + d[via][aim] = d[src][aim] /\ LexLt(r[src][via] \o r[via][aim], r[src][aim]) THEN
       LET r2 == [r EXCEPT ![src][aim] = r[src][via] \o r[via][aim], ![aim][src] = r[aim][via] \o r[via][src]]
       IN Relax([run EXCEPT !.r = r2], src, via, unv, Tail(aims))
    ELSE Relax(run, src, via, unv, Tail(aims))
StepRun(run, via) ==
  LET src == ord[run.si] unv2 == run.unv \ {via}
      run2 == Relax(run, src, via, unv2, Adj(edges, ord, via))
  IN IF unv2 = {} THEN
        IF run.si = N THEN [run2 EXCEPT !.si = N + 1, !.unv = {}]
        ELSE [run2 EXCEPT !.si = run.si + 1, !.unv = Nodes \ {ord[run.si + 1]}]
     ELSE [run2 EXCEPT !.unv = unv2]
\* the nodes `min(unvisited, key=distance)` may return
Cands(run) == LET src == ord[run.si] m == Min({run.d[src][x] : x \in run.unv}) IN {x \in run.unv : run.d[src][x] = m}
AllGraphs == SUBSET Pairs
Init == /\ edges \in AllGraphs /\ ord \in Perms
        /\ A = InitRun(edges, ord) /\ B = InitRun(edges, ord)
StepA == A.si <= N /\ \E v \in Cands(A) : A' = StepRun(A, v) /\ UNCHANGED <<edges, ord, B>>
StepB == A.si > N /\ B.si <= N /\ \E v \in Cands(B) : B' = StepRun(B, v) /\ UNCHANGED <<edges, ord, A>>
Next == StepA \/ StepB
Finished == A.si > N /\ B.si > N
RouteMapUnique == Finished => A.r = B.r /\ A.d = B.d
\* independent shortest distances (breadth-first layers)
RECURSIVE Layer(_, _, _)
Layer(front, seen, k) == IF front = {} THEN [x \in {} |-> 0]
    ELSE LET nxt == {y \in Nodes \ seen : \E x \in front : E(x, y) \in edges}
             rest == Layer(nxt, seen \cup nxt, k + 1)
         IN [x \in front \cup DOMAIN rest |-> IF x \in front THEN k ELSE rest[x]]
Dist(s) == Layer({s}, {s}, 0)
RouteOK(run) == \A s, t \in Nodes : s # t =>
     IF t \in DOMAIN Dist(s)
     THEN /\ run.d[s][t] = Dist(s)[t] /\ Len(run.r[s][t]) = run.d[s][t] /\ Last(run.r[s][t]) = t
          /\ \A i \in 1..Len(run.r[s][t]) :
                LET a == IF i = 1 THEN s ELSE run.r[s][t][i - 1] b == run.r[s][t][i] IN a # b /\ E(a, b) \in edges
     ELSE run.d[s][t] = INF /\ run.r[s][t] = <<>>
RouteValid == Finished => RouteOK(A)
\* layout.py:329  `full`
Full(run) == \A s, t \in Nodes : s = t \/ run.d[s][t] # INF
FullIffConnected == Finished => (Full(A) <=> \A s \in Nodes : DOMAIN Dist(s) = Nodes)
=============================================================================
