----------------------------- MODULE RoutesConf ------------------------------
(* Routes on given connection graphs (file env ROUTE_FILE: sequence of [n, ord, edges]); prints the   *)
(* unique final route map of each graph so that the harness can compare it with the route map the     *)
(* real constructor built (drift) - and checks uniqueness / validity on exactly these graphs.         *)
EXTENDS Routes, Json, IOUtils
Graphs == JsonDeserialize(IOEnv.ROUTE_FILE)
VARIABLE gid
InitC == \E i \in 1..Len(Graphs) :
            /\ Graphs[i].n = N /\ gid = Graphs[i].gid
            /\ edges = {<<Graphs[i].edges[j][1], Graphs[i].edges[j][2]>> : j \in 1..Len(Graphs[i].edges)}
            /\ ord = Graphs[i].ord
            /\ A = InitRun(edges, ord) /\ B = InitRun(edges, ord)
NextC == Next /\ UNCHANGED gid
DumpC == Finished => PrintT("ROW " \o ToJson([gid |-> gid, routes |-> A.r, full |-> Full(A)]))
=============================================================================
