------------------------------ MODULE SaveFolder -----------------------------
(***************************************************************************)
(* setupSave (pygyro/utilities/savingTools.py): the folder of a simulation *)
(* and the parameter file `initParams.json` in it, as a state machine over *)
(* the working directory.                                                  *)
(*   fs[n]  : "absent" | "empty" (folder without parameter file) | c       *)
(*            (folder whose parameter file holds the constants c)          *)
(*   Auto(c)     = setupSave(c)            -> simulation_<k>, k the lowest *)
(*                 index whose folder does not exist (linear search)       *)
(*   Named(n, c) = setupSave(c, n)         -> n, created when absent       *)
(*   Mkdir / Remove : what a user or a batch script does between calls     *)
(* The root rank acts; the name is broadcast when it was chosen by the     *)
(* root, so every rank returns the same name (ret is per rank).            *)
(*   ParamsAreCurrent : the folder returned holds the constants of THIS    *)
(*                      call (also when it existed, also when it held the  *)
(*                      parameter file of an earlier run)                  *)
(*   OnlyReturnedTouched, AutoNeverClobbers, AutoLowestFree, RanksAgree    *)
(* Every transition TLC finds is printed (ROW) and executed on the real    *)
(* function in a scratch directory by C18.                                 *)
(***************************************************************************)
EXTENDS Integers, Sequences, FiniteSets, TLC, Json, SaveFolderOps
CONSTANTS NSim,          \* automatic names simulation_0 .. simulation_(NSim-1)
          NRanks
Consts == {"a", "b"}
SimNames == {Sim(i) : i \in 0..(NSim - 1)}
Names == SimNames \cup {"run.A"}
Ranks == 0..(NRanks - 1)
VARIABLES fs, last
vars == <<fs, last>>
Free == FreeIn(fs, NSim)
Init == fs = [n \in Names |-> "absent"] /\ last = [act |-> "none"]
Auto(c, root) ==
    /\ Free # {}
    /\ fs' = AutoTo(fs, NSim, c)
    /\ last' = [act |-> "auto", c |-> c, root |-> root, from |-> fs, to |-> fs', ret |-> [r \in Ranks |-> AutoRet(fs, NSim)]]
Named(n, c, root) ==
    /\ fs' = NamedTo(fs, n, c)
    /\ last' = [act |-> "named", c |-> c, name |-> n, root |-> root, from |-> fs, to |-> fs', ret |-> [r \in Ranks |-> n]]
Mkdir(n) == fs[n] = "absent" /\ fs' = [fs EXCEPT ![n] = "empty"] /\ last' = [act |-> "user"]
Remove(n) == fs[n] # "absent" /\ fs' = [fs EXCEPT ![n] = "absent"] /\ last' = [act |-> "user"]
Next == \/ \E c \in Consts, root \in Ranks : Auto(c, root)
        \/ \E n \in Names, c \in Consts, root \in Ranks : Named(n, c, root)
        \/ \E n \in Names : Mkdir(n) \/ Remove(n)
Call == last.act \in {"auto", "named"}
Returned == last.ret[0]
ParamsAreCurrent == Call => fs[Returned] = last.c
OnlyReturnedTouched == Call => \A n \in Names \ {Returned} : fs[n] = last.from[n]
AutoNeverClobbers == (last.act = "auto") => last.from[Returned] = "absent"
AutoLowestFree == (last.act = "auto") => \E i \in 0..(NSim - 1) : Returned = Sim(i) /\ \A j \in 0..(i - 1) : last.from[Sim(j)] # "absent"
RanksAgree == Call => \A r \in Ranks : last.ret[r] = Returned
NamedReturnsItsName == (last.act = "named") => Returned = last.name
Dump == Call => PrintT("ROW " \o ToJson(last))
=============================================================================
