---------------------------- MODULE SaveFolderOps ----------------------------
(***************************************************************************)
(* The two calls of setupSave as functions of the directory state (shared  *)
(* by SaveFolder.tla, which explores every history, and C18Trace.tla,      *)
(* which judges recorded calls).  f maps folder names to "absent" |        *)
(* "empty" | <constants>; ns automatic names simulation_0..simulation_ns-1 *)
(* are in its domain.                                                      *)
(***************************************************************************)
EXTENDS Integers, Sequences, TLC
Sim(i) == "simulation_" \o ToString(i)
FreeIn(f, ns) == {i \in 0..(ns - 1) : f[Sim(i)] = "absent"}
LowestIn(f, ns) == CHOOSE i \in FreeIn(f, ns) : \A j \in FreeIn(f, ns) : i <= j
AutoRet(f, ns) == Sim(LowestIn(f, ns))
AutoTo(f, ns, c) == [f EXCEPT ![AutoRet(f, ns)] = c]
NamedTo(f, n, c) == [f EXCEPT ![n] = c]
=============================================================================
