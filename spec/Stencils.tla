------------------------------ MODULE Stencils -------------------------------
(***************************************************************************)
(* Stencil weights and index algebra of the field-aligned operators.       *)
(*  - Lagrange interpolation of degree 5 on the six integer nodes          *)
(*    floor(d)-2 .. floor(d)+3 evaluated at d (advection.py:224-258):      *)
(*    weights L_k(alpha), alpha = d - floor(d), k in -2..3;                *)
(*  - first-derivative finite-difference weights of order n-1 on n         *)
(*    consecutive integer nodes start..start+n-1, start = 1-(n+1) div 2    *)
(*    (advection.py:78-97: solve of the Vandermonde system), here by the   *)
(*    closed form  w_k = d/dx l_k(0)  and VERIFIED by the moment conditions*)
(*    sum_k w_k k^m = [m = 1], m = 0..n-1;                                 *)
(*  - periodic index wrap and the three loop regimes of the parallel       *)
(*    gradient (advection.py:137-156) which avoid the modulo.              *)
(***************************************************************************)
EXTENDS Rat, FiniteSets
LNodes == -2..3
RECURSIVE RProdSet(_, _)
\* product over a finite set of integers S of F[j]
RProdSet(S, F) == IF S = {} THEN One ELSE LET j == CHOOSE x \in S : TRUE IN RMul(F[j], RProdSet(S \ {j}, F))
RECURSIVE RSumSet(_, _)
RSumSet(S, F) == IF S = {} THEN Zero ELSE LET j == CHOOSE x \in S : TRUE IN RAdd(F[j], RSumSet(S \ {j}, F))
RECURSIVE RPow(_, _)
RPow(x, m) == IF m = 0 THEN One ELSE RMul(x, RPow(x, m - 1))

\* Lagrange basis polynomial of node k over node set K, evaluated at the rational x
Lag(K, k, x) == RProdSet(K \ {k}, [j \in K \ {k} |-> RDiv(RSub(x, I(j)), I(k - j))])
LagrangeW(alpha) == [k \in LNodes |-> Lag(LNodes, k, alpha)]

\* derivative at 0 of the Lagrange basis polynomial of node k over K
DLag0(K, k) == RSumSet(K \ {k}, [i \in K \ {k} |->
                   RMul(Norm(1, k - i), RProdSet(K \ {k, i}, [j \in K \ {k, i} |-> Norm(-j, k - j)]))])
FDStart(n) == 1 - ((n + 1) \div 2)
FDNodes(n) == FDStart(n)..(FDStart(n) + n - 1)
FDWeights(n) == [k \in FDNodes(n) |-> DLag0(FDNodes(n), k)]

(* ---- identities ---- *)
LagrangeSumOne(alpha) == RSumSet(LNodes, LagrangeW(alpha)) = One
\* exact on polynomials up to degree 5: sum_k L_k(alpha) k^m = alpha^m
LagrangeExact(alpha) == \A m \in 0..5 : RSumSet(LNodes, [k \in LNodes |-> RMul(LagrangeW(alpha)[k], RPow(I(k), m))]) = RPow(alpha, m)
\* on a node the weights are the unit vector: a whole-cell displacement is an exact shift
UnitAtNode == LagrangeW(Zero) = [k \in LNodes |-> IF k = 0 THEN One ELSE Zero]
FDMoments(n) == \A m \in 0..(n - 1) :
    RSumSet(FDNodes(n), [k \in FDNodes(n) |-> RMul(FDWeights(n)[k], RPow(I(k), m))]) = (IF m = 1 THEN One ELSE Zero)
FDCentred(n) == (n % 2 = 1) => (FDStart(n) = -((n - 1) \div 2) /\ \A k \in FDNodes(n) : FDWeights(n)[-k] = RNeg(FDWeights(n)[k]))
\* the three regimes of the scatter loop: rows fwd <= i < nz - bkwd are written WITHOUT the modulo, der[(i-s), :];
\* numpy resolves an index x with -nz <= x < 0 as x + nz and rejects x >= nz.  There the plain index must be
\* admissible and denote the same row as (i - s) mod nz.
PyIndex(x, nz) == IF x < 0 THEN x + nz ELSE x
RegimesEqualModulo(n, nz) ==
    LET fwd == -FDStart(n) bkwd == FDStart(n) + n - 1 IN
    \A i \in fwd..(nz - bkwd - 1) : \A s \in FDNodes(n) :
        (i - s) >= -nz /\ (i - s) < nz /\ PyIndex(i - s, nz) = (i - s) % nz
=============================================================================
