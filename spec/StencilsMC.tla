----------------------------- MODULE StencilsMC ------------------------------
EXTENDS Stencils, TLC, Json
CONSTANTS Den, MaxNz
VARIABLES kind, par
Init == \/ kind = "lagrange" /\ par \in 0..(Den - 1)          \* alpha = par / Den
        \/ kind = "fd" /\ par \in 3..7                         \* number of points n = order + 1
Next == FALSE /\ UNCHANGED <<kind, par>>
Alpha == Norm(par, Den)
ILagrange == kind = "lagrange" => (LagrangeSumOne(Alpha) /\ LagrangeExact(Alpha) /\ (par = 0 => UnitAtNode))
IFD == kind = "fd" => (FDMoments(par) /\ FDCentred(par) /\ \A nz \in (par + 1)..MaxNz : RegimesEqualModulo(par, nz))
Dump == PrintT("ROW " \o ToJson(IF kind = "lagrange"
            THEN [kind |-> kind, alpha |-> Alpha, nodes |-> [i \in 1..6 |-> i - 3], w |-> [i \in 1..6 |-> LagrangeW(Alpha)[i - 3]]]
            ELSE [kind |-> kind, n |-> par, nodes |-> [i \in 1..par |-> FDStart(par) + i - 1],
                  w |-> [i \in 1..par |-> FDWeights(par)[FDStart(par) + i - 1]]]))
=============================================================================
