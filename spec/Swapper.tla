------------------------------- MODULE Swapper -------------------------------
(***************************************************************************)
(* LayoutSwapper: the direct moves between layouts of DIFFERENT layout     *)
(* groups (layout.py:1280-1488), on numpy strided views.  A layout is      *)
(* [ord, ax]: the ordering and, per distributed position, the direction of *)
(* the base process grid (1 or 2) whose sub-communicator distributes it    *)
(* (position i of a layout in the 2-D group uses direction i; a            *)
(* single-direction group uses the direction the constructor matched).     *)
(* A rank with base coordinates c has rank coordinate c[ax[i]] at          *)
(* position i <= Len(ax) and 0 elsewhere.                                  *)
(*  scatter (destination more distributed): every rank already holds what  *)
(*     it needs: slice the gathered block along the axis that becomes      *)
(*     distributed and transpose locally;                                  *)
(*  gather (destination less distributed): Allgather of the padded blocks  *)
(*     on the sub-communicator that is given up, then one slice per        *)
(*     source rank, each reshaped to ITS OWN block shape;                  *)
(*  same distribution: a local transposition - admissible only if every    *)
(*     shared communicator distributes the same dimension in both layouts  *)
(*     (_compatibleLayout).                                                *)
(***************************************************************************)
EXTENDS LayoutAbs, NumpyViews
SIdx(seq, x) == CHOOSE i \in 1..Len(seq) : seq[i] = x
\* process vector (padded) and rank coordinates of a layout [ord, ax] on base grid np with base coordinates c
PV(lay, np, nd) == [i \in 1..nd |-> IF i <= Len(lay.ax) THEN np[lay.ax[i]] ELSE 1]
RCof(lay, c, nd) == [i \in 1..nd |-> IF i <= Len(lay.ax) THEN c[lay.ax[i]] ELSE 0]
Dirs(lay) == {lay.ax[i] : i \in 1..Len(lay.ax)}
\* _compatibleLayout for different handlers
DirectlyCompatible(l1, l2) ==
    IF Len(l1.ax) = Len(l2.ax)
    THEN Dirs(l1) = Dirs(l2) /\ \A i \in 1..Len(l1.ax) : l1.ord[i] = l2.ord[SIdx(l2.ax, l1.ax[i])]
    ELSE LET sm == IF Len(l1.ax) < Len(l2.ax) THEN l1 ELSE l2
             lg == IF Len(l1.ax) < Len(l2.ax) THEN l2 ELSE l1
             kept == {j \in 1..Len(lg.ax) : lg.ax[j] \in Dirs(sm) /\ sm.ord[SIdx(sm.ax, lg.ax[j])] = lg.ord[j]}
         IN Len(lg.ax) - Len(sm.ax) = 1 /\ Cardinality((1..Len(lg.ax)) \ kept) = 1
\* getAxes(gathered, scattered): position in the scattered layout of the direction the gathered one lacks, and the
\* position of that dimension in the gathered layout
GivenUp(lg, ls) == CHOOSE j \in 1..Len(ls.ax) : ls.ax[j] \notin Dirs(lg)
Transposition(of, ot) == [i \in 1..Len(ot) |-> SIdx(of, ot[i])]

\* ---- scatter: gathered layout lf -> scattered layout lt, on one rank with base coordinates c
Scatter(tob, fromb, sh, lf, lt, np, c) ==
    LET nd == Len(sh) j == GivenUp(lf, lt) idxs == SIdx(lf.ord, lt.ord[j])
        lsF == LocShape(sh, lf.ord, PV(lf, np, nd), RCof(lf, c, nd))
        lsT == LocShape(sh, lt.ord, PV(lt, np, nd), RCof(lt, c, nd))
        r == c[lt.ax[j]] n == np[lt.ax[j]]
        st == PStart(sh[lt.ord[j]], n, r) len == PLen(sh[lt.ord[j]], n, r)
    IN Assign(tob, Contig(0, lsT), fromb, Perm(SliceAx(Contig(0, lsF), idxs, st, st + len), Transposition(lf.ord, lt.ord)))

\* ---- gather: scattered layout lf -> gathered layout lt.  Step 1: what every rank sends (first blockSize entries of its source)
GBlockSize(sh, lf, lt, np, c) ==
    LET nd == Len(sh) j == GivenUp(lt, lf)
        ls == LocShape(sh, lf.ord, PV(lf, np, nd), RCof(lf, c, nd)) ms == MaxShape(sh, lf.ord, PV(lf, np, nd))
    IN NPProd([ls EXCEPT ![j] = ms[j]])
\* Step 2: unpack the received blocks (recv = concatenation over the ranks r of the given-up direction) into tob
RECURSIVE GatherLoop(_, _, _, _, _, _, _, _, _, _)
GatherLoop(r, n, tob, recv, sh, lf, lt, np, c, bsz) ==
    IF r = n THEN tob
    ELSE LET nd == Len(sh) j == GivenUp(lt, lf) idxd == SIdx(lt.ord, lf.ord[j])
             cr == [c EXCEPT ![lf.ax[j]] = r]
             bshape == LocShape(sh, lf.ord, PV(lf, np, nd), RCof(lf, cr, nd))        \* the sender's own block shape
             lsT == LocShape(sh, lt.ord, PV(lt, np, nd), RCof(lt, c, nd))
             st == PStart(sh[lf.ord[j]], n, r) len == PLen(sh[lf.ord[j]], n, r)
             block == Reshaped(IF IsError(recv) THEN 0 ELSE Len(recv), r * bsz, bshape)
             dv == SliceAx(Contig(0, lsT), idxd, st, st + len)
         IN GatherLoop(r + 1, n, Assign(tob, dv, recv, Perm(block, Transposition(lf.ord, lt.ord))), recv, sh, lf, lt, np, c, bsz)
\* ---- same distribution: local transposition
LocalMove(tob, fromb, sh, lf, lt, np, c) ==
    LET nd == Len(sh)
        lsF == LocShape(sh, lf.ord, PV(lf, np, nd), RCof(lf, c, nd))
        lsT == LocShape(sh, lt.ord, PV(lt, np, nd), RCof(lt, c, nd))
    IN Assign(tob, Contig(0, lsT), fromb, Perm(Contig(0, lsF), Transposition(lf.ord, lt.ord)))
=============================================================================
