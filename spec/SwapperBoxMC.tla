----------------------------- MODULE SwapperBoxMC ----------------------------
(* Candidate configurations for a LayoutSwapper: a 2-D group (1-2 orderings on a     *)
(* (n1,n2) grid) plus a group on the first and a group on the second process         *)
(* direction (one ordering each), optionally none.  The constructor decides which it *)
(* accepts; the abstract layout model is checked on every candidate layout.          *)
EXTENDS LayoutBox, Json
CONSTANTS ND, MaxExt, MaxP, SampleK
VARIABLES cfg, stage
Grid2 == {<<a, b>> : a \in 1..MaxP, b \in 1..MaxP}
Cand(nd, sh) ==
    {c \in [nd : {nd}, sh : {sh}, np : Grid2,
            g0 : {L \in SUBSET Perms(nd) : Cardinality(L) \in {1, 2}},
            g1 : {{}} \cup {{o} : o \in Perms(nd)}, g2 : {{}} \cup {{o} : o \in Perms(nd)}] :
        /\ c.g1 \cup c.g2 # {}
        /\ GridFits(c.sh, c.g0, Pad(c.np, nd)) /\ Connected(c.g0, Pad(c.np, nd))
        /\ GridFits(c.sh, c.g1, Pad(<<c.np[1]>>, nd)) /\ GridFits(c.sh, c.g2, Pad(<<c.np[2]>>, nd))
        \* a single-direction group must share its distributed dimension with some 2-D layout at the matching position
        /\ \A o \in c.g1 : \E q \in c.g0 : q[1] = o[1] \/ q[2] = o[1]
        /\ \A o \in c.g2 : \E q \in c.g0 : q[1] = o[1] \/ q[2] = o[1]}
Init == stage = 0 /\ cfg \in [nd : {ND}, sh : [1..ND -> 1..MaxExt], np : {<<1, 1>>}, g0 : {{}}, g1 : {{}}, g2 : {{}}]
Next == /\ stage = 0 /\ stage' = 1
        /\ IF SampleK = 0 THEN cfg' \in Cand(ND, cfg.sh)
           ELSE cfg' \in RandomSubset(SampleK, Cand(ND, cfg.sh))
EveryIndexOnce == stage = 1 =>
    /\ \A o \in cfg.g0 : Covers(cfg.sh, o, Pad(cfg.np, cfg.nd)) /\ DisjointBlocks(cfg.sh, o, Pad(cfg.np, cfg.nd))
    /\ \A o \in cfg.g1 : Covers(cfg.sh, o, Pad(<<cfg.np[1]>>, cfg.nd))
    /\ \A o \in cfg.g2 : Covers(cfg.sh, o, Pad(<<cfg.np[2]>>, cfg.nd))
Dump == stage = 1 => PrintT("ROW " \o ToJson(cfg))
=============================================================================
