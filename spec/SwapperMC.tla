------------------------------ MODULE SwapperMC ------------------------------
(* Every direct move between a layout of the 2-D group and a layout of a single-direction group (both directions), and      *)
(* between two single-direction layouts that _compatibleLayout admits, on a box of shapes and base grids: the               *)
(* implementation-shaped move (Swapper) leaves LayoutAbs.Holds on every rank, never leaves its arrays, and keeps the source *)
(* intact when a spare buffer is given.  gather: "pack" = Allgather of the padded blocks, "unpack" = per-rank slices.       *)
EXTENDS Swapper, LayoutBox
CONSTANTS ND, MaxExt, MaxP
VARIABLES cfg, arr, sub
vars == <<cfg, arr, sub>>
Grid2 == {<<a, b>> : a \in 1..MaxP, b \in 1..MaxP}
Coords(np) == {<<a, b>> : a \in 0..(np[1] - 1), b \in 0..(np[2] - 1)}
L2(o) == [ord |-> o, ax |-> <<1, 2>>]
L1(o, d) == [ord |-> o, ax |-> <<d>>]
FitsL(sh, lay, np) == \A i \in 1..Len(sh) : PV(lay, np, Len(sh))[i] <= sh[lay.ord[i]]
Cases(sh) ==
    {c \in [sh : {sh}, np : Grid2, a : {L2(o) : o \in Perms(ND)} \cup {L1(o, d) : o \in Perms(ND), d \in {1, 2}},
            b : {L2(o) : o \in Perms(ND)} \cup {L1(o, d) : o \in Perms(ND), d \in {1, 2}}, usebuf : BOOLEAN] :
        /\ c.a # c.b /\ (Len(c.a.ax) = 1 \/ Len(c.b.ax) = 1)
        /\ FitsL(sh, c.a, c.np) /\ FitsL(sh, c.b, c.np)
        /\ DirectlyCompatible(c.a, c.b)}
Ident0 == [i \in 1..ND |-> i]
Init == /\ sub = "choose" /\ arr = <<>>
        /\ cfg \in [sh : [1..ND -> 1..MaxExt], np : {<<1, 1>>}, a : {L2(Ident0)}, b : {L2(Ident0)}, usebuf : {FALSE}]
BufLen(c) == \* large enough for every block and every gathered set of padded blocks (bufferSize, over-approximated uniformly)
    LET nd == Len(c.sh) IN
    NPProd(MaxShape(c.sh, c.a.ord, PV(c.a, c.np, nd))) * c.np[1] * c.np[2] + NPProd(MaxShape(c.sh, c.b.ord, PV(c.b, c.np, nd))) * c.np[1] * c.np[2]
Choose == /\ sub = "choose"
          /\ \E c \in Cases(cfg.sh) : cfg' = c
          /\ sub' = "load" /\ arr' = arr
Load == /\ sub = "load"
        /\ arr' = [c \in Coords(cfg.np) |->
              LET n == BufLen(cfg) blk == Holds(cfg.sh, cfg.a.ord, PV(cfg.a, cfg.np, ND), RCof(cfg.a, c, ND), 0)
              IN [S |-> [i \in 1..n |-> IF i <= Len(blk) THEN blk[i] ELSE -7], D |-> [i \in 1..n |-> -7], B |-> [i \in 1..n |-> -7]]]
        /\ sub' = (IF Len(cfg.a.ax) > Len(cfg.b.ax) THEN "allgather" ELSE "move") /\ UNCHANGED cfg
\* scatter or local move: one local step, result in D
Move == /\ sub = "move"
        /\ arr' = [c \in Coords(cfg.np) |-> [arr[c] EXCEPT !.D =
              IF Len(cfg.a.ax) < Len(cfg.b.ax) THEN Scatter(arr[c].D, arr[c].S, cfg.sh, cfg.a, cfg.b, cfg.np, c)
              ELSE LocalMove(arr[c].D, arr[c].S, cfg.sh, cfg.a, cfg.b, cfg.np, c)]]
        /\ sub' = "done" /\ UNCHANGED cfg
\* gather, step 1: comm.Allgather((source[:blockSize], DOUBLE), (recv[:blockSize*size], DOUBLE)); recv = D (no buffer) or B
Allgather ==
    /\ sub = "allgather"
    /\ LET j == GivenUp(cfg.b, cfg.a) d == cfg.a.ax[j] n == cfg.np[d] IN
       arr' = [c \in Coords(cfg.np) |->
          LET bsz == GBlockSize(cfg.sh, cfg.a, cfg.b, cfg.np, c)
              rname == IF cfg.usebuf THEN "B" ELSE "D"
              old == arr[c][rname]
              bad == bsz * n > Len(old) \/ \E r \in 0..(n - 1) : GBlockSize(cfg.sh, cfg.a, cfg.b, cfg.np, [c EXCEPT ![d] = r]) # bsz
          IN [arr[c] EXCEPT ![rname] = IF bad THEN Error ELSE
                [p \in 1..Len(old) |-> IF p <= bsz * n THEN arr[[c EXCEPT ![d] = (p - 1) \div bsz]].S[((p - 1) % bsz) + 1] ELSE old[p]]]]
    /\ sub' = "unpack" /\ UNCHANGED cfg
\* gather, step 2: without buffer the blocks are unpacked from D into S and then dest[:] = source[:]; with buffer from B into D
Unpack ==
    /\ sub = "unpack"
    /\ LET j == GivenUp(cfg.b, cfg.a) n == cfg.np[cfg.a.ax[j]] IN
       arr' = [c \in Coords(cfg.np) |->
          LET bsz == GBlockSize(cfg.sh, cfg.a, cfg.b, cfg.np, c) IN
          IF cfg.usebuf
          THEN [arr[c] EXCEPT !.D = GatherLoop(0, n, arr[c].D, arr[c].B, cfg.sh, cfg.a, cfg.b, cfg.np, c, bsz)]
          ELSE LET s2 == GatherLoop(0, n, arr[c].S, arr[c].D, cfg.sh, cfg.a, cfg.b, cfg.np, c, bsz) IN [arr[c] EXCEPT !.S = s2, !.D = s2]]
    /\ sub' = "done" /\ UNCHANGED cfg
Next == Choose \/ Load \/ Move \/ Allgather \/ Unpack
NoError == sub \in {"move", "allgather", "unpack", "done"} => \A c \in Coords(cfg.np) : ~IsError(arr[c].S) /\ ~IsError(arr[c].D) /\ ~IsError(arr[c].B)
DestCorrect == sub = "done" => \A c \in Coords(cfg.np) :
    LET want == Holds(cfg.sh, cfg.b.ord, PV(cfg.b, cfg.np, ND), RCof(cfg.b, c, ND), 0) IN
    ~IsError(arr[c].D) /\ \A i \in 1..Len(want) : arr[c].D[i] = want[i]
SourceIntact == (sub = "done" /\ cfg.usebuf) => \A c \in Coords(cfg.np) :
    LET was == Holds(cfg.sh, cfg.a.ord, PV(cfg.a, cfg.np, ND), RCof(cfg.a, c, ND), 0) IN \A i \in 1..Len(was) : arr[c].S[i] = was[i]
=============================================================================
