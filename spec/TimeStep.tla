------------------------------ MODULE TimeStep -------------------------------
(***************************************************************************)
(* The driver's time loop (fullSimulation.py:196-270) as a sequence of     *)
(* statements over three distributed grids (f: distribution function,      *)
(* phi: potential, rho: density), each with a current layout.  One action   *)
(* per driver statement.  Operator actions carry the layout assertions of   *)
(* the code as enabling conditions, the save / restore discipline of the    *)
(* grid (GridBuffers, C04) is tracked abstractly.                           *)
(*                                                                          *)
(* Decomposition independence (C05) is a statement about the operators'     *)
(* loops: each applies to every local slice the parameters of that slice's  *)
(* OWN global coordinates.  An operator call on a slice is an event         *)
(* [own: global coordinates of the slice, used: global coordinates whose    *)
(* parameters the call received]; ParamIsOwn demands used = own.  With       *)
(* uninterpreted operator symbols that is exactly the condition under which *)
(* every decomposition computes, at every global index, the term the serial *)
(* run computes.                                                            *)
(***************************************************************************)
EXTENDS Integers, Sequences, FiniteSets

S(op, g, to) == [op |-> op, g |-> g, to |-> to]
\* the operands of the quasi-neutrality statements are part of the statement: density of f into rho, modes of rho, solve for phi
\* from rho, inverse transform of phi
QN == << S("setLayout", "f", "v_parallel"), S("density", "rho", "f"), S("getModes", "rho", ""),
         S("setLayout", "rho", "mode_solve"), S("setLayout", "phi", "mode_solve"), S("solve", "phi", "rho"),
         S("setLayout", "phi", "v_parallel_2d"), S("setLayout", "rho", "v_parallel_2d"), S("findPotential", "phi", "") >>
\* fullSimulation.py:177-191 (before the loop) and :226-270 (one iteration); diagnostics and output left out
Prologue == QN
Strang ==
   << S("setLayout", "f", "flux_surface"), S("save", "f", ""), S("fluxStep", "", ""),
      S("setLayout", "f", "v_parallel"), S("setLayout", "phi", "v_parallel_1d"), S("vparStep", "", ""),
      S("setLayout", "f", "poloidal"), S("setLayout", "phi", "poloidal"), S("polStep", "", "") >>
   \o QN \o
   << S("restore", "f", ""), S("fluxStep", "", ""),
      S("setLayout", "f", "v_parallel"), S("setLayout", "phi", "v_parallel_1d"), S("vparStep", "", ""),
      S("setLayout", "f", "poloidal"), S("setLayout", "phi", "poloidal"), S("polStep", "", ""),
      S("setLayout", "f", "v_parallel"), S("vparKeep", "", ""),
      S("setLayout", "f", "flux_surface"), S("fluxStep", "", "") >>
   \o QN

VARIABLES lay,      \* [f, phi, rho] -> layout name
          savedLay, \* layout of f's held save, or "none"
          pc,       \* <<phase, index>>: phase "prologue" / "loop"
          steps     \* completed loop iterations
tsvars == <<lay, savedLay, pc, steps>>

\* the layout assertions of the operators (advection.py:296, :524-525; poisson_solver.py:62-63; and the
\* layouts the operators were constructed for)
Pre(st) ==
    CASE st.op = "fluxStep"  -> lay.f = "flux_surface"
      [] st.op \in {"vparStep"} -> lay.f = "v_parallel" /\ lay.phi = "v_parallel_1d"
      [] st.op = "vparKeep"  -> lay.f = "v_parallel"
      [] st.op = "polStep"   -> lay.f = "poloidal" /\ lay.phi = "poloidal"
      [] st.op = "density"   -> lay.f = "v_parallel" /\ lay.rho = "v_parallel_2d"
      [] st.op = "getModes"  -> lay.rho = "v_parallel_2d"
      [] st.op = "solve"     -> lay.phi = "mode_solve" /\ lay.rho = "mode_solve"
      [] st.op = "findPotential" -> lay.phi = "v_parallel_2d"
      [] st.op = "save"      -> savedLay = "none"
      [] st.op = "restore"   -> savedLay # "none"
      [] OTHER -> TRUE
Apply(st) ==
    /\ lay' = CASE st.op = "setLayout" -> [lay EXCEPT ![st.g] = st.to]
                [] st.op = "restore"   -> [lay EXCEPT !.f = savedLay]
                [] OTHER -> lay
    /\ savedLay' = CASE st.op = "save" -> lay.f [] st.op = "restore" -> "none" [] OTHER -> savedLay

Cur == IF pc[1] = "prologue" THEN Prologue[pc[2]] ELSE Strang[pc[2]]
Init == /\ lay = [f |-> "v_parallel", phi |-> "mode_solve", rho |-> "v_parallel_2d"]
        /\ savedLay = "none" /\ pc = <<"prologue", 1>> /\ steps = 0
Advance == LET n == IF pc[1] = "prologue" THEN Len(Prologue) ELSE Len(Strang) IN
           IF pc[2] < n THEN pc' = <<pc[1], pc[2] + 1>> /\ steps' = steps
           ELSE pc' = <<"loop", 1>> /\ steps' = (IF pc[1] = "loop" THEN steps + 1 ELSE steps)
Stmt == Pre(Cur) /\ Apply(Cur) /\ Advance
CONSTANT MaxSteps
Next == steps < MaxSteps /\ Stmt
\* no assertion of an operator can fail, no save/restore is refused: the only way Stmt is disabled is the step bound
NoAssertionFails == steps < MaxSteps => Pre(Cur)
\* at the top of every iteration the grids are where the previous one left them and nothing is held saved
LoopInvariant == (pc = <<"loop", 1>>) => (lay = [f |-> "v_parallel", phi |-> "v_parallel_2d", rho |-> "v_parallel_2d"] /\ savedLay = "none")
\* the restore brings f back to the layout the first flux step left it in
RestoreIsFluxSurface == (pc[1] = "loop" /\ Cur.op = "restore") => savedLay = "flux_surface"

ParamIsOwn(ev) == ev.used = ev.own
=============================================================================
