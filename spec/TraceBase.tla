------------------------------ MODULE TraceBase ------------------------------
(***************************************************************************)
(* Idiom shared by all trace specifications (code -> spec direction).      *)
(* The trace is an ndjson file (env TRACE_FILE); every line is one event   *)
(* recorded from the real code, with an integer field `id` and a string    *)
(* field `k` (kind = the spec action it claims to be).  Verdicts are       *)
(* total: a failing clause is reported ("REJ" row naming event and clause) *)
(* and the walk continues, so the rest of the trace is still examined.     *)
(***************************************************************************)
EXTENDS Integers, Sequences, TLC, Json, IOUtils

Trace == ndJsonDeserialize(IOEnv.TRACE_FILE)

Rej(e, clause) == PrintT("REJ " \o ToJson([id |-> e.id, clause |-> clause]))
\* clauses: sequence of <<name, BOOLEAN>>; reports every false one, always TRUE
\* (IF, not \/ : TLC splits a disjunction inside the next-state relation into separate actions)
Verdict(e, clauses) == \A i \in DOMAIN clauses : IF clauses[i][2] THEN TRUE ELSE Rej(e, clauses[i][1])
DriftRow(e) == PrintT("REJ " \o ToJson([id |-> e.id, clause |-> "DRIFT"]))
NoDrift(e, same) == IF same THEN TRUE ELSE DriftRow(e)

Has(e, f) == f \in DOMAIN e
=============================================================================
