------------------------------ MODULE Transpose ------------------------------
(***************************************************************************)
(* LayoutHandler.transpose as the code performs it (layout.py:485-836),    *)
(* statement by statement on numpy strided views (module NumpyViews):      *)
(*   _get_swap_axes, _extract_from_source (split the source block along    *)
(*   the axis that becomes distributed, pre-transpose every piece so that  *)
(*   the old distributed axis leads, write padded blocks), Alltoall on the *)
(*   sub-communicator of the changing position, _rearrange_from_buffer     *)
(*   (even path: one transposition; uneven path: one slice per source      *)
(*   rank), the purely local path, the same-layout copy, and the multi-hop *)
(*   redirects with their buffer parity (with and without spare buffer).   *)
(* Every rank has three flat arrays S (source), D (destination), B (spare) *)
(* of exactly bufferSize elements.  Local steps of different ranks commute *)
(* and are taken jointly; the exchange is one joint step per hop.          *)
(* Refinement statement (TransposeMC): after the last hop array D of every *)
(* rank starts with LayoutAbs.Holds(...) - the abstract atomic re-blocking *)
(* - no view ever leaves its array or mismatches in shape, and S is        *)
(* untouched when a spare buffer is given.                                 *)
(***************************************************************************)
EXTENDS LayoutAbs, NumpyViews

Idx(seq, x) == CHOOSE i \in 1..Len(seq) : seq[i] = x
Swap1(seq, a) == IF a = 1 THEN seq ELSE [seq EXCEPT ![1] = seq[a], ![a] = seq[1]]
Ident(n) == [i \in 1..n |-> i]

\* layout.py:688  (np = the nprocs list as given; positions 1-based).  <<>> if no distributed position changes.
SwapAxes(of, ot, np) ==
    LET ch == {i \in 1..Len(np) : np[i] > 1 /\ of[i] # ot[i]} IN
    IF ch = {} THEN <<>> ELSE LET a0 == CHOOSE i \in ch : TRUE IN <<a0, Idx(of, ot[a0]), Idx(ot, of[a0])>>

\* np.transpose(sourceView, [layout_source.dims_order.index(i) for i in layout_dest.dims_order])
LocalTransposition(of, ot) == [i \in 1..Len(ot) |-> Idx(of, ot[i])]

Sentinel == -7
Fresh(n) == [i \in 1..n |-> Sentinel]

\* ---- _extract_from_source on one rank: returns the new destination array ("tobuffer")
RECURSIVE PackLoop(_, _, _, _, _, _, _, _, _, _, _)
PackLoop(r, nsp, tob, fromb, ls, shape, size, ranges, order, baxis, splitinfo) ==
    IF r = nsp THEN tob
    ELSE LET split == splitinfo.len[r + 1] mstart == splitinfo.start[r + 1]
             arr == Reshaped(IF IsError(tob) THEN 0 ELSE Len(tob), r * size, shape)
             rg == [ranges EXCEPT ![baxis] = split]
             arrView == SliceAll(arr, rg)
             srcv == Perm(SliceAx(Contig(0, ls), splitinfo.a1, mstart, mstart + split), order)
         IN PackLoop(r + 1, nsp, Assign(tob, arrView, fromb, srcv), fromb, ls, shape, size, rg, order, baxis, splitinfo)
Pack(tob, fromb, sh, of, ot, P, np, rc) ==
    LET ax == SwapAxes(of, ot, np)
        ls == LocShape(sh, of, P, rc) ld == LocShape(sh, ot, P, rc)
    IN IF ax = <<>>
       THEN Assign(tob, Contig(0, ld), fromb, Perm(Contig(0, ls), LocalTransposition(of, ot)))
       ELSE LET a0 == ax[1] a1 == ax[2]
                mls == MaxShape(sh, of, P) mld == MaxShape(sh, ot, P)
                shape0 == [ls EXCEPT ![a0] = mls[a0], ![a1] = mld[a0]]
                order == Swap1(Ident(Len(sh)), a0)
                shape == Swap1(shape0, a0)
                ranges == Swap1(ls, a0)
                nsp == P[a0]
                info == [a1 |-> a1, len |-> [r \in 1..nsp |-> PLen(sh[ot[a0]], nsp, r - 1)],
                         start |-> [r \in 1..nsp |-> PStart(sh[ot[a0]], nsp, r - 1)]]
            IN PackLoop(0, nsp, tob, fromb, ls, shape, NPProd(shape0), ranges, order, Idx(order, a1), info)

\* number of elements every rank sends in the Alltoall of this hop
XchgSize(sh, of, ot, P, np, rc) ==
    LET ax == SwapAxes(of, ot, np) ls == LocShape(sh, of, P, rc)
        mls == MaxShape(sh, of, P) mld == MaxShape(sh, ot, P)
    IN NPProd([ls EXCEPT ![ax[2]] = mld[ax[1]], ![ax[1]] = mls[ax[1]] * P[ax[1]]])

\* ---- _rearrange_from_buffer after the exchange, on one rank: data = destination array, buf = received blocks
RECURSIVE UnpackLoop(_, _, _, _, _, _, _, _, _, _)
UnpackLoop(r, nsp, data, recv, bufView, destView, transposition, baxis, inf, a2) ==
    IF r = nsp THEN data
    ELSE LET start == inf.maxlen * r lenr == inf.len[r + 1] st == inf.start[r + 1]
             bv == SliceAx(SliceAx(bufView, baxis, 0, inf.dshape0), 1, start, start + lenr)
             dv == SliceAx(destView, a2, st, st + lenr)
         IN UnpackLoop(r + 1, nsp, Assign(data, dv, recv, Perm(bv, transposition)), recv, bufView, destView, transposition, baxis, inf, a2)
Unpack(data, recv, sh, of, ot, P, np, rc) ==
    LET ax == SwapAxes(of, ot, np) a0 == ax[1] a1 == ax[2] a2 == ax[3]
        ls == LocShape(sh, of, P, rc) ld == LocShape(sh, ot, P, rc)
        mls == MaxShape(sh, of, P) mld == MaxShape(sh, ot, P)
        nsp == P[a0]
        sshape0 == [ls EXCEPT ![a1] = mld[a0], ![a0] = mls[a0] * nsp]
        sorder == Swap1(of, a0)
        sshape == Swap1(sshape0, a0)
        transposition == [i \in 1..Len(ot) |-> Idx(sorder, ot[i])]
        baxis == IF a0 # 1 /\ a1 = 1 THEN a0 ELSE a1
        destView == Contig(0, ld)
        bufView == Reshaped(IF IsError(recv) THEN 0 ELSE Len(recv), 0, sshape)
        inf == [maxlen |-> mls[a0], dshape0 |-> ld[a0], len |-> [r \in 1..nsp |-> PLen(sh[of[a0]], nsp, r - 1)],
                start |-> [r \in 1..nsp |-> PStart(sh[of[a0]], nsp, r - 1)]]
    IN IF ld[a2] % nsp = 0 /\ ls[a1] % nsp = 0
       THEN Assign(data, destView, recv, Perm(bufView, transposition))
       ELSE UnpackLoop(0, nsp, data, recv, bufView, destView, transposition, baxis, inf, a2)

\* ---- the plan of hops of one transpose call: sequence of [f, t, r, of, ot] (array names "S","D","B"; r = receive array)
Hop(f, t, r, of, ot) == [f |-> f, t |-> t, r |-> r, of |-> of, ot |-> ot]
Other(x, y) == CHOOSE z \in {"S", "D", "B"} : z # x /\ z # y
RECURSIVE RestHops(_, _, _, _, _)
RestHops(route, i, cur, fromN, toN) ==        \* `_transpose(fromBuf, toBuf)` for steps i..n, swapping the roles
    IF i > Len(route) THEN <<>>
    ELSE <<Hop(fromN, toN, fromN, cur, route[i])>> \o RestHops(route, i + 1, route[i], toN, fromN)
\* route = the orderings visited after the source (last = destination)
Plan(osrc, route, usebuf) ==
    LET n == Len(route) IN
    IF n = 1 THEN <<Hop("S", "D", IF usebuf THEN "B" ELSE "S", osrc, route[1])>>
    ELSE IF ~usebuf THEN RestHops(route, 1, osrc, "S", "D")
    ELSE IF n % 2 = 0 THEN <<Hop("S", "B", "D", osrc, route[1])>> \o RestHops(route, 2, route[1], "B", "D")
                      ELSE <<Hop("S", "D", "B", osrc, route[1])>> \o RestHops(route, 2, route[1], "D", "B")
\* layout.py:581  "if (nSteps % 2 == 0): dest[:] = source"   (only without spare buffer)
FinalCopy(route, usebuf) == Len(route) > 1 /\ ~usebuf /\ Len(route) % 2 = 0
=============================================================================
