----------------------------- MODULE TransposeMC -----------------------------
(* The implementation-shaped transpose on every configuration of the LayoutBox (or a TLC-drawn sample), every ordered       *)
(* (source, destination) pair whose route has at most three hops, every such route, with and without spare buffer.          *)
(* One behaviour per case:  cfg chosen -> [Pack -> Exchange -> Unpack] per hop -> (final copy) -> done.                    *)
EXTENDS Transpose, LayoutBox, Json, SequencesExt
CONSTANTS ND, MaxExt, MaxP, MaxLay, SampleK, SampleNDs, SampleExt, SampleLay
VARIABLES cfg,      \* [nd, sh, np, lays] as in LayoutBox, plus src, route, usebuf
          arr,      \* rank coordinate tuple -> [S, D, B] flat arrays (or Error)
          k, sub,   \* hop index and sub-step "pack" / "xchg" / "unpack" / "copy" / "done"
          stage
vars == <<cfg, arr, k, sub, stage>>
P == Pad(cfg.np, cfg.nd)
Ranks == RankCoords(P)
SkipsOnZeroBuffer == FALSE          \* cfg: SkipsOnZeroBuffer <- SkipsTrue is the code before the plot_only flag (see XchgAll)
SkipsTrue == TRUE

\* bufferSize as LayoutHandler.__init__ computes it (layout.py:431-462), per rank
BufSize(rc) ==
    LET L == cfg.lays
        first == CHOOSE o \in L : TRUE
        hopsize(o1, o2) ==
            LET ax == SwapAxes(o1, o2, cfg.np) bs == LocShape(cfg.sh, o1, P, rc) IN
            IF ax = <<>> THEN NPProd(bs)
            ELSE NPProd([bs EXCEPT ![ax[1]] = MaxShape(cfg.sh, o1, P)[ax[1]], ![ax[2]] = MaxShape(cfg.sh, o2, P)[ax[1]]]) * P[ax[1]]
        cands == {LocSize(cfg.sh, o, P, rc) : o \in L} \cup {hopsize(o1, o2) : <<o1, o2>> \in {pr \in L \X L : pr[1] # pr[2] /\ Compatible(pr[1], pr[2], P)}}
    IN CHOOSE m \in cands : \A x \in cands : x <= m

\* routes of at most three compatible hops from src to dst inside the layout set (no repeated layout)
Routes3(src, dst, L) ==
    {<<dst>> : x \in {1} \cap (IF Compatible(src, dst, P) /\ src # dst THEN {1} ELSE {})}
    \cup {<<a, dst>> : a \in {a \in L \ {src, dst} : Compatible(src, a, P) /\ Compatible(a, dst, P)}}
    \cup {<<pr[1], pr[2], dst>> : pr \in {pr \in (L \ {src, dst}) \X (L \ {src, dst}) :
              pr[1] # pr[2] /\ Compatible(src, pr[1], P) /\ Compatible(pr[1], pr[2], P) /\ Compatible(pr[2], dst, P)}}

InitArr(c) == [rc \in RankCoords(Pad(c.np, c.nd)) |->
    LET PP == Pad(c.np, c.nd) IN TRUE]
Init == /\ stage = 0 /\ k = 0 /\ sub = "idle" /\ arr = <<>>
        /\ \/ /\ SampleK = 0
              /\ cfg \in [nd : {ND}, sh : [1..ND -> 1..MaxExt], np : {<<1>>}, lays : {{}}, src : {<<>>}, route : {<<>>}, usebuf : {FALSE}]
           \/ /\ SampleK > 0
              /\ cfg \in [nd : {0}, sh : {<<i>> : i \in 1..SampleK}, np : {<<1>>}, lays : {{}}, src : {<<>>}, route : {<<>>}, usebuf : {FALSE}]
\* stage 0 -> 1: complete the configuration and load the source blocks (tokens) into S; D and B hold the sentinel
Choose ==
    /\ stage = 0 /\ stage' = 1
    /\ \E c \in (IF SampleK = 0 THEN ShapeBox(ND, cfg.sh, MaxP, MaxLay) ELSE {RandomCfg(SampleNDs, SampleExt, MaxP, SampleLay)}) :
         /\ Admissible(c)
         /\ \E src \in c.lays : \E dst \in c.lays : \E ub \in BOOLEAN :
              LET PP == Pad(c.np, c.nd) IN
              \E rt \in (IF src = dst THEN {<<>>} ELSE
                          {<<dst>> : x \in (IF Compatible(src, dst, PP) THEN {1} ELSE {})}
                          \cup {<<a, dst>> : a \in {a \in c.lays \ {src, dst} : ~Compatible(src, dst, PP) /\ Compatible(src, a, PP) /\ Compatible(a, dst, PP)}}
                          \cup {<<pr[1], pr[2], dst>> : pr \in {pr \in (c.lays \ {src, dst}) \X (c.lays \ {src, dst}) :
                                  pr[1] # pr[2] /\ ~Compatible(src, dst, PP) /\ Compatible(src, pr[1], PP) /\ Compatible(pr[1], pr[2], PP)
                                  /\ Compatible(pr[2], dst, PP) /\ ~Compatible(src, pr[2], PP) /\ ~Compatible(pr[1], dst, PP)}}) :
                 cfg' = [nd |-> c.nd, sh |-> c.sh, np |-> c.np, lays |-> c.lays, src |-> src, route |-> rt, usebuf |-> ub]
    /\ k' = 1
    /\ sub' = IF cfg'.route = <<>> THEN "samecopy" ELSE "pack"
    /\ arr' = [rc \in RankCoords(Pad(cfg'.np, cfg'.nd)) |-> "unset"]
Load ==      \* allocate the arrays (needs cfg' of the previous step)
    /\ stage = 1 /\ stage' = 2
    /\ arr' = [rc \in Ranks |->
                 LET n == BufSize(rc) blk == Holds(cfg.sh, cfg.src, P, rc, 0)
                 IN [S |-> [i \in 1..n |-> IF i <= Len(blk) THEN blk[i] ELSE Sentinel], D |-> Fresh(n), B |-> Fresh(n)]]
    /\ UNCHANGED <<cfg, k, sub>>
ThePlan == Plan(cfg.src, cfg.route, cfg.usebuf)
H == ThePlan[k]
Dst == IF cfg.route = <<>> THEN cfg.src ELSE cfg.route[Len(cfg.route)]
NextHop == IF k < Len(ThePlan) THEN k' = k + 1 /\ sub' = "pack"
           ELSE k' = k /\ sub' = (IF FinalCopy(cfg.route, cfg.usebuf) THEN "copy" ELSE "done")
PackAll ==
    /\ stage = 2 /\ sub = "pack"
    /\ arr' = [rc \in Ranks |-> [arr[rc] EXCEPT ![H.t] = Pack(arr[rc][H.t], arr[rc][H.f], cfg.sh, H.of, H.ot, P, cfg.np, rc)]]
    /\ IF SwapAxes(H.of, H.ot, cfg.np) = <<>> THEN NextHop ELSE (sub' = "xchg" /\ k' = k)
    /\ UNCHANGED <<cfg, stage>>
\* comm.Alltoall(sendBuf, rcvBuf) on the sub-communicator of the changing position
XchgAll ==
    /\ stage = 2 /\ sub = "xchg"
    /\ LET a0 == SwapAxes(H.of, H.ot, cfg.np)[1] nsp == P[a0] IN
       arr' = [rc \in Ranks |->
          LET size == XchgSize(cfg.sh, H.of, H.ot, P, cfg.np, rc) chunk == size \div nsp me == rc[a0]
              send(j) == arr[[rc EXCEPT ![a0] = j]][H.t]
              old == arr[rc][H.r]
              \* layout.py:517: the plot-only rank (constructed with empty coordinate arrays, on a communicator of its own) ignores the
              \* call.  Before fix 'plot_only flag' the test was "_buffer_size == 0", which also caught DATA ranks that own nothing in any
              \* layout of an over-decomposed grid: they skipped the Alltoall their neighbours issue (SkipsOnZeroBuffer <- TRUE in the
              \* cfg reproduces that code: NoError fails).  Every rank of this model is a data rank.
              idle == SkipsOnZeroBuffer /\ \E j \in 0..(nsp - 1) : (BufSize([rc EXCEPT ![a0] = j]) = 0) # (BufSize(rc) = 0)
              bad == idle \/ IsError(old) \/ size > Len(old) \/ \E j \in 0..(nsp - 1) : IsError(send(j)) \/ size > Len(send(j))
                     \/ XchgSize(cfg.sh, H.of, H.ot, P, cfg.np, [rc EXCEPT ![a0] = j]) # size
          IN [arr[rc] EXCEPT ![H.r] = IF bad THEN Error
                ELSE [p \in 1..Len(old) |-> IF p <= size THEN send((p - 1) \div chunk)[me * chunk + ((p - 1) % chunk) + 1] ELSE old[p]]]]
    /\ sub' = "unpack" /\ UNCHANGED <<cfg, k, stage>>
UnpackAll ==
    /\ stage = 2 /\ sub = "unpack"
    /\ arr' = [rc \in Ranks |-> [arr[rc] EXCEPT ![H.t] = Unpack(arr[rc][H.t], arr[rc][H.r], cfg.sh, H.of, H.ot, P, cfg.np, rc)]]
    /\ NextHop /\ UNCHANGED <<cfg, stage>>
CopyAll ==   \* dest[:] = source  (whole arrays)
    /\ stage = 2 /\ sub = "copy"
    /\ arr' = [rc \in Ranks |-> [arr[rc] EXCEPT !.D = arr[rc].S]]
    /\ sub' = "done" /\ UNCHANGED <<cfg, k, stage>>
SameCopy ==  \* source_name == dest_name: copy the first layout.size entries
    /\ stage = 2 /\ sub = "samecopy"
    /\ arr' = [rc \in Ranks |-> LET n == LocSize(cfg.sh, cfg.src, P, rc) IN
                 [arr[rc] EXCEPT !.D = [i \in 1..Len(arr[rc].D) |-> IF i <= n THEN arr[rc].S[i] ELSE arr[rc].D[i]]]]
    /\ sub' = "done" /\ UNCHANGED <<cfg, k, stage>>
Next == Choose \/ Load \/ PackAll \/ XchgAll \/ UnpackAll \/ CopyAll \/ SameCopy

\* (with SkipsOnZeroBuffer <- SkipsTrue, over-decomposed boxes are only safe under CONSTRAINT NoIdle)
NoIdle == stage < 2 \/ \A rc \in Ranks : BufSize(rc) > 0
(* ---- refinement of LayoutAbs and the side conditions of C01 / C02 ---- *)
NoError == stage = 2 => \A rc \in Ranks : ~IsError(arr[rc].S) /\ ~IsError(arr[rc].D) /\ ~IsError(arr[rc].B)
DestCorrect == (stage = 2 /\ sub = "done") =>
    \A rc \in Ranks : LET want == Holds(cfg.sh, Dst, P, rc, 0) IN
        ~IsError(arr[rc].D) /\ Len(arr[rc].D) >= Len(want) /\ \A i \in 1..Len(want) : arr[rc].D[i] = want[i]
SourceIntact == (stage = 2 /\ sub = "done" /\ cfg.usebuf) =>
    \A rc \in Ranks : LET was == Holds(cfg.sh, cfg.src, P, rc, 0) IN
        ~IsError(arr[rc].S) /\ \A i \in 1..Len(was) : arr[rc].S[i] = was[i]

(* ---- wire-level binding: what every rank hands to Alltoall in the first hop (recorded from the real code and compared) ---- *)
DumpWire == (stage = 2 /\ sub = "xchg" /\ k = 1) =>
    PrintT("ROW " \o ToJson([sh |-> cfg.sh, np |-> cfg.np, of |-> H.of, ot |-> H.ot,
        ranks |-> LET rs == SetToSeq(Ranks) IN
                  [i \in 1..Len(rs) |-> LET rc == rs[i] size == XchgSize(cfg.sh, H.of, H.ot, P, cfg.np, rc) snd == arr[rc][H.t] IN
                      [rc |-> rc, size |-> size, send |-> IF IsError(snd) \/ size > Len(snd) THEN <<>> ELSE SubSeq(snd, 1, size)]]]))
=============================================================================
