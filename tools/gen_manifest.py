#!/usr/bin/env python3
"""Regenerate /verif/MANIFEST.json from harness/registry.py (single source of truth for the interface)."""
import json, os, sys
HERE = os.path.dirname(os.path.dirname(os.path.abspath(__file__)))
sys.path.insert(0, HERE)
from harness import registry

props = [json.loads(l)["id"] for l in open(os.path.join(HERE, "properties.jsonl"))]
checks = []
for pid in props:
    r = registry.CHECKS.get(pid)
    if not r:
        continue
    checks.append({
        "property_id": pid,
        "quick_cmd": "./vcheck %s --tier quick" % pid,
        "thorough_cmd": "./vcheck %s --tier thorough" % pid,
        "evidence_file": "/verif/evidence/%s.json" % pid,
        "replay_cmd_template": "./vcheck %s --replay {path}" % pid,
        "engine": "tla-tlc-conformance",
        "level_claimed": {"category": r["level"], "text": r["text"], "design_ref": r["design_ref"]},
        "level_note": r["note"],
        "technique": r["technique"],
    })
na = [{"property_id": p, "reason": registry.NOT_APPLICABLE.get(p, "check not built yet (work in progress; see DESIGN.md section 12)")}
      for p in props if p not in registry.CHECKS]
m = {
    "version": 1,
    "setup_cmd": "./vcheck setup",
    "hooks": {"guard": "PYCCEL_PYGYRO_VERIF",
              "enable": "no source hooks exist: checks import /repo's working tree with PYTHONPATH=/verif/shim:/repo (simulated mpi4py first) and record at the public API and at the MPI boundary from the harness side",
              "baseline_off_cmd": "cd /repo && /venv/bin/python -m pytest -ra -q -p no:cacheprovider --timeout=900 --continue-on-collection-errors",
              "source_commits": registry.HOOK_COMMITS, "add_only": True},
    "engines": [{"name": "tla-tlc-conformance", "path": "/verif/vcheck",
                 "serves_properties": [c["property_id"] for c in checks],
                 "kind_free_text": "explicit TLA+ specification suite (/verif/spec) checked with TLC (exhaustive / simulation / oracle evaluation / trace validation), bound to the code by replay into and trace validation of the real classes running on a simulated mpi4py"}],
    "checks": checks,
    "not_applicable": na,
    "notes": registry.NOTES,
}
json.dump(m, open(os.path.join(HERE, "MANIFEST.json"), "w"), indent=1)
print("MANIFEST.json: %d checks, %d not_applicable" % (len(checks), len(na)))
