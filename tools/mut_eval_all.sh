#!/bin/bash
# usage: tools/mut_eval_all.sh <worktree root, e.g. /tmp/wt5> <tag prefix, e.g. -r5m> <parallelism> [ids...]
root=$1; tag=$2; par=$3; shift 3
ids=${@:-C01 C02 C03 C04 C05 C06 C07 C08 C09 C10 C11 C12 C13 C14 C15 C16 C17 C18 C19 C20}
for id in $ids; do for k in 1 2 3 4 5; do
  d=$root/$id/seed/m$k
  if [ -f $d/patch.diff ] && [ -f $d/demo.py ] && [ ! -f /verif/seeded/$id$tag$k/meta.json ]; then echo "$id $k"; fi
done; done | xargs -P $par -L 1 bash -c 'SEED_TAG='$tag'$1 python3 /verif/tools/seed_eval.py $0 '$root'/$0/seed/m$1 > /tmp/w1/mut_$0_$1.log 2>&1; echo "$0 m$1 $(grep -h "exit" /tmp/w1/mut_$0_$1.log | head -1) $(grep -h confirmed /tmp/w1/mut_$0_$1.log | head -1)"'
