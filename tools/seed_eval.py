#!/usr/bin/env python3
"""Evaluate a seeded change produced by an independent sub-agent.

usage: seed_eval.py <property id> <dir with patch.diff, demo.py, README.md> [other check ids ...]
 1. scratch worktree of /repo: demo on the clean tree (must pass), apply the patch, demo (must fail), pinned test suite (must stay 2074 passed)
 2. the checks of /verif are run against the patched worktree (VERIF_REPO=<worktree>; evidence and replays redirected), quick tier
 3. files + meta.json are stored under /verif/seeded/<id>/; the worktree is removed
"""
import json, os, re, shutil, subprocess, sys, tempfile, time

pid, src = sys.argv[1], sys.argv[2]
tag = os.environ.get("SEED_TAG", "")
others = sys.argv[3:]
V = "/verif"
wt = tempfile.mkdtemp(prefix="seedwt_")
os.rmdir(wt)
subprocess.run(["git", "-C", "/repo", "worktree", "add", "-q", "--detach", wt, "HEAD"], check=True)
meta = {"property": pid, "evaluated_at_repo_commit": subprocess.run(["git", "-C", "/repo", "rev-parse", "--short", "HEAD"], capture_output=True, text=True).stdout.strip()}
try:
    env = dict(os.environ, PYTHONPATH=os.path.join(V, "shim") + ":" + wt, PYTHONHASHSEED="0")     # (agents get a copy of the shim under /tmp/simmpi)

    def demo():
        p = subprocess.run(["/venv/bin/python", os.path.join(src, "demo.py")], cwd=wt, env=env, capture_output=True, text=True, timeout=1800)
        return p.returncode, (p.stdout + p.stderr)[-600:]
    # demos may refer to their own worktree path: rewrite it
    d = open(os.path.join(src, "demo.py")).read()
    d2 = re.sub(r"/tmp/wt\d?/C\d\d", wt, d).replace("/tmp/simmpi", os.path.join(V, "shim"))
    sub = os.path.basename(os.path.normpath(src))
    rel = os.path.join("seed", sub) if re.fullmatch(r"m\d+", sub) else "seed"       # same relative location as in the agent's worktree
    os.makedirs(os.path.join(wt, rel), exist_ok=True)
    demo_path = os.path.join(wt, rel, "demo.py")
    open(demo_path, "w").write(d2)

    def demo():
        p = subprocess.run(["/venv/bin/python", demo_path], cwd=wt, env=env, capture_output=True, text=True, timeout=1800)
        return p.returncode, (p.stdout + p.stderr)[-600:]
    rc0, out0 = demo()
    ap = subprocess.run(["git", "-C", wt, "apply", os.path.join(os.path.abspath(src), "patch.diff")], capture_output=True, text=True)
    meta["patch_applies"] = ap.returncode == 0
    if ap.returncode != 0:
        meta["apply_error"] = ap.stderr[-500:]
    rc1, out1 = demo()
    meta["demo_clean"] = {"exit": rc0, "tail": out0[-300:]}
    meta["demo_patched"] = {"exit": rc1, "tail": out1[-300:]}
    t = subprocess.run("/venv/bin/python -m pytest -q -p no:cacheprovider --timeout=900 --continue-on-collection-errors 2>&1 | tail -1", shell=True, cwd=wt,
                       capture_output=True, text=True, timeout=3600)
    meta["test_suite_with_patch"] = t.stdout.strip()
    meta["confirmed"] = bool(ap.returncode == 0 and rc0 == 0 and rc1 != 0 and "2074 passed" in t.stdout)
    shutil.rmtree(os.path.join(wt, "seed"), ignore_errors=True)
    res = {}
    evd = tempfile.mkdtemp(prefix="seedev_")
    for c in [pid] + others:
        t0 = time.time()
        p = subprocess.run([os.path.join(V, "vcheck"), c, "--tier", "quick"], cwd=V, capture_output=True, text=True, timeout=7200,
                           env=dict(os.environ, VERIF_REPO=wt, VERIF_EVIDENCE_DIR=evd, VERIF_REPLAY_DIR=os.path.join(evd, "replays")))
        lines = [l for l in p.stdout.splitlines() if l.startswith(("VIOLATION", "  class", "  detail", "MACHINERY", "KNOWN"))]
        res[c] = {"exit": p.returncode, "wall_s": round(time.time() - t0, 1), "lines": [l[:400] for l in lines[:12]]}
    shutil.rmtree(evd, ignore_errors=True)
    meta["checks_on_patched_tree"] = res
    meta["detected_by"] = [c for c, r in res.items() if r["exit"] == 1]
finally:
    subprocess.run(["git", "-C", "/repo", "worktree", "remove", "--force", wt])
dst = os.path.join(V, "seeded", pid + tag)
os.makedirs(dst, exist_ok=True)
for f in ("patch.diff", "demo.py", "README.md"):
    if os.path.exists(os.path.join(src, f)):
        shutil.copy(os.path.join(src, f), dst)
json.dump(meta, open(os.path.join(dst, "meta.json"), "w"), indent=1)
print(json.dumps({k: meta[k] for k in ("property", "confirmed", "detected_by", "test_suite_with_patch")}, indent=1))
for c, r in meta["checks_on_patched_tree"].items():
    print(c, "exit", r["exit"], r["wall_s"], "s")
    for l in r["lines"][:6]:
        print("   ", l[:300])
