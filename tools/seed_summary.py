#!/usr/bin/env python3
"""Write /verif/seeded/SUMMARY.md from the meta.json files."""
import glob, json, os
NOTES = {
 "C04/": "first missed by C04 (no 3-hop route in its layout sets; C01 caught it); C04 now has a five-layout configuration with a three-hop route",
 "C06/": "first missed (no layout graph with several equally short routes of length 3); C06 now records cyclic layout graphs (six 3-D orderings, random 4-D sets of 5-8 orderings)",
 "C12/": "first missed (a fresh operator object per step); C12 now drives ONE PoloidalAdvection object through a sequence of steps with different dt and potentials",
 "C16/": "first missed (radial extents whose larger blocks come last); C16 now uses radial extents 5 and 7 on 3-4 processes and grids (4,1),(3,1)",
 "C18/": "first missed (explicit time 0 never requested when a later checkpoint exists); C18 now loads every checkpoint of a directory by explicit time",
 "C19/": "first missed (no Lagrange shift beyond one z period); C19 now calls get_lagrange_vals with shifts beyond one and two periods, output inside a sentinel buffer",
 "C01-r2/": "first missed: the harness re-ran each call of a failing sequence in isolation and reported nothing when each passed alone; it now reports the shortest failing prefix (history_dependent)",
 "C02-r2/": "C02 now reads every accessor again after setLayout / save / setLayout / restore",
 "C04-r2/": "first missed (no swapper with several layout groups under a Grid); C04 now has multi-group swapper grids with per-layout process grids in its reset events",
 "C07-r2/": "first missed (no uniform-cubic x uniform-cubic pair drawn among the 2-D samples, single-cell x2 grids only for der 0,0); C07 now draws such pairs explicitly and checks degenerate / unsorted x2 grids in all four derivative branches",
 "C10-r2/": "first missed (calls were made r-outer / v-inner, which happens to refresh the stale table); C10 now calls step() v-outer / r-inner with an r-dependent transform and in seeded random order otherwise",
 "C11-r2/": "C11 now plans same-speed / different-dt call sequences on one operator object",
 "C12-r2/": "C12 reuses one operator and one potential spline (updated in place) per sequence",
 "C13-r2/": "C13 makes two sweeps on the same ParallelGradient object",
 "C16-r2/": "C16 builds two DensityFinder objects on the same spline",
 "C05-r2/": "C05 runs the quasi-neutrality pipeline with a non-zero flux-surface average across process grids",
 "C01-r3/": "first missed (process grids had at most two axes); C01 now lets TLC sample process grids of every length (MaxNpLenFull) and over-decomposed grids, and replays them",
 "C04-r3/": "first missed (no grid with more processes than points along a direction); C04 now has over-decomposed configurations, with and without idle data ranks",
 "C05-r3/": "first missed (default constants make kTe = kTi); C05 now sets up the three starting layouts and one driver run with constants in general position",
 "C06-r3/": "first missed (no rank with an empty block in some layouts only); C06 now records over-decomposed handler / swapper scenarios",
 "C08-r3/": "first missed (interpolator and spline always had the same dtype); C08 now pairs every interpolator dtype with every spline dtype on real data",
 "C10-r3/": "first missed (rotational transform was never negative); C10 now runs iota = -1 and an r-dependent profile that changes sign",
 "C12-r3/": "missed by C12 (a grid-level index mismatch between gridStep and gridStep_SplinesUnchanged, visible only with z distributed); detected by C05, which now drives every public grid-level operator entry point on every process grid against the serial run",
 "C16-r3/": "first missed (the oracle's equilibrium table was built with the code's own feq_vector, the function the change broke, and CTi was 1); C16/C11/C12 now use an independent transcription of the equilibrium (harness/physics.py) and constants in general position",
 "C18-r3/": "first run did not finish (the cached constants described the default 256x512x32x128 grid and the set-up comparison tried to build it); the comparison now sizes the grid by what the parser returns and reports the difference",
 "C19-r3/": "first missed (2-D kernels were only called with equal degrees and three of the four derivative combinations); C19 now calls them with mixed degrees and all four combinations - which also exposed the pythran defect fixed in 2b90041",
 "C01-r4/": "would have been missed (only connected layout sets were offered); strengthened from the agent's description before the first evaluation: disconnected sets are now offered to the constructor and must be refused on every rank, or are judged like any accepted set",
 "C03-r4/": "would have been missed (one two-directional group per grouping); strengthened before the first evaluation: groupings with two two-directional groups, on the same grid or with exchanged directions",
 "C07-r4/": "would have been missed (basis[i] objects were never built); strengthened before the first evaluation: every basis[i] is compared with the exact basis function, periodic images included",
 "C08-r4/": "first missed (the 2-D interpolant was judged through its coefficients only); C08 now evaluates it point by point and on the tensor grid at its interpolation points, mixed degrees included",
 "C09-r4/": "would have been missed (cell widths 1 and 1/4 only, absolute tolerances); strengthened before the first evaluation: cell widths 2^-30 and 1024 with tolerances relative to the width, interpolation points taken as the code rounds them",
 "C10-r4/": "would have been missed (dyadic z step: displacement / dz exact); strengthened before the first evaluation: whole-cell displacements on z steps 0.1, 0.3, 1/7",
 "C11-r4/": "first missed in the quick tier (periodic shifts of more than one domain width were only in the thorough tier); now in both",
 "C13-r4/": "would have been missed (constant rotational transform); strengthened before the first evaluation: r-dependent sign-changing transform - which exposed the defect fixed in 148392e (the seed's patch was rebased onto that fix)",
 "C14-r4/": "would have been missed (refusal tested for mode 0 only); strengthened before the first evaluation: Neumann/Neumann refusal for every mode index with D = 0 and D != 0",
 "C16-r4/": "would have been missed (density storage pre-filled with a real sentinel); strengthened before the first evaluation: complex sentinel, both parts must be overwritten",
 "C17-r4/": "would have been missed (min/max only on fresh grids); strengthened before the first evaluation: one grid object through setLayout / save / restore / free with the request order reversed after the restore",
 "C18-r4/": "would have been missed (folder names without dots); strengthened before the first evaluation: folders split_2.5, unsplit.v2_7, lt<i>_1.5",
 "C20-r4/": "first missed (only the search functions were called); C20 now also asks the set-up functions, with and without a plot-only rank, which grid they chose",
 "C02-r5m3/": "first missed by C02 (layouts of a layout swapper were not inspected; C03 detected it); C02 now checks that they tile the array once per replica",
 "C06-r5m3/": "first missed (figure blocks were only gathered from real grids); C06 now records the gather of a complex grid",
 "C06-r5m5/": "first missed (the plot-only rank was always rank 0); C06 now records set-ups whose draw rank is the last / a middle rank",
 "C07-r5m1/": "first missed (cell widths were binary fractions, at most 6 cells); C07 now runs uniform cubic spaces with 9-11 cells on [-1,1] and [0,1]",
 "C10-r5m2/": "first a machinery failure (an IndexError of the mutated code escaped an unguarded call of the driver); exceptions raised inside the code under test that escape a driver are now violations (code-raises)",
 "C10-r5m5/": "first missed by C10 (grid-level slip; C05 detected it); C10, C11, C12 now judge the grid-level entry points slice by slice (harness/gridops.py)",
 "C11-r5m5/": "first missed by C11 (grid-level slip; C05 detected it); see C10-r5m5",
 "C12-r5m4/": "first missed by C12 (grid-level slip; C05 detected it); see C10-r5m5",
 "C12-r5m5/": "first missed by C12 (grid-level slip; C05 detected it); see C10-r5m5",
 "C13-r5m1/": "first missed (the radius was always the leading dimension of the layout); C13 now also uses a layout with the radius in second position",
 "C14-r5m1/": "first missed (a manufactured right-hand side makes the quadrature error cancel, and the requested exactness was generous); C14 now compares with the exact rational Galerkin solution at exactly the needed, even, exactness (harness/weakform.py)",
 "C14-r5m2/": "first missed (C was zero everywhere or nowhere); C14 now offers a C that vanishes on part of the domain",
 "C14-r5m3/": "first missed by C14 (serial only; C15 detected it); C14 now runs solveEquation with the modes distributed over processes",
 "C14-r5m5/": "first missed by C14 (serial only; C15 and C05 detected it); see C14-r5m3",
 "C15-r5m1/": "first missed by C15 (equilibrium run on 2 ranks did not split the radius; C16 and C05 detected it); C15 now also runs it on 4 ranks (2x2)",
 "C15-r5m4/": "first missed by C15 (only the general solver ran on several process grids; C05 detected it); C15 now runs the QuasiNeutralitySolver pipeline on every process grid",
 "C15-r5m5/": "first missed by C15 (operands of the driver's statements were not recorded; after that C05 detected it); TimeStep.tla now carries the operands and C15 validates the driver's quasi-neutrality statements",
 "C17-r5m4/": "first a machinery failure (an infinite result reached int()); results are now converted safely and out-of-range numbers clamped before they reach TLC",
 "C17-r5m5/": "first a machinery failure; see C17-r5m4",
 "C18-r5m4/": "first missed (no constants file with zero values); C18 now checks that every literal of a file is kept, zeros included",
 "C18-r5m5/": "not confirmed at HEAD (its demonstration already fails on the unmodified tree after the repairs of 13.3); detected anyway",
 "C19-r5m1/": "first a machinery failure (the process running the compiled kernels died of memory corruption); that is now a violation",
 "C19-r5m5/": "first missed (output arrays were zero on entry); C19 now hands over output arguments with stale contents",
 "C20-r5m4/": "first missed (only setupCylindricalGrid with draw rank 0); C20 now also asks setupFromFile and other draw ranks",
 "C02-r6m3/": "first missed (exact-size buffers were only tried on layout handlers; C03 detected the same slip); C02 now walks through the layouts of a layout swapper with arrays of exactly its advertised buffer size",
 "C05-r6m5/": "a restart slip (hyperslab of the checkpoint read): not part of what C05 states; detected by C18",
 "C06-r6m3/": "first missed (a scenario in which a rank raised was left unjudged); a rank that raises before a collective another member has already issued is now a violation",
 "C06-r6m5/": "first missed (no restart set-up among the scenarios); C06 now records setupFromFile with and without a plot-only rank",
 "C08-r6m3/": "first missed (no uniform-cubic x uniform-cubic pair among the sampled 2-D spaces); such pairs are now drawn explicitly",
 "C08-r6m5/": "first missed (the 1-D interpolant was judged through its coefficients only); C08 now evaluates it point by point, as array and in place at its interpolation points",
 "C09-r6m5/": "first missed (the oracle took the interpolation points as the code had them, also when they had left the domain); C09 now requires them inside the domain",
 "C13-r6m5/": "first missed (radial grids of float dtype only); C13 now also uses a radial grid of integer dtype",
 "C14-r6m4/": "a slip in QuasiNeutralitySolver (m = 0 operator for chi = 1): what C15 states; detected by C15",
 "C14-r6m5/": "a slip in QuasiNeutralitySolver.solveEquation (coefficient reset): what C15 states; detected by C15",
 "C16-r6m4/": "a slip in the periodic quadrature weights (not used by the density integration of a clamped v space): what C09 states; detected by C09",
 "C17-r6m4/": "first missed (the token field has the same extrema on every rank); minima and maxima are now judged on a ramp field",
 "C18-r6m3/": "first missed (no constants file with an explicit CN0); added",
 "C20-r6m3/": "first missed (too few set-up samples near the limits); C20 now includes process counts at the limit of what the grid sizes allow",
 "C01-r7m5/": "first missed (no route of four steps inside one handler); C01 now has deterministic chain-of-five and ring-of-six layout sets",
 "C02-r7m3/": "first missed (no swapper whose less distributed handler has two layouts of its own); the configuration of the repository's own swapper test (four groups) was added",
 "C03-r7m4/": "first missed (no even-step move inside a group with a buffer); found with the four-group configuration",
 "C04-r7m5/": "first missed (grids on a layout swapper only made one- and two-step changes); grids now change layout along three-step routes on a swapper with two 2-D groups",
 "C06-r7m3/": "first missed (no restart scenario from a folder without a saved grid, and a reduction whose root lies outside the communicator was not judged); both added",
 "C07-r7m1/": "first missed (the 2-D point-wise kernels were reached through Spline2D only, with equal degrees in the pairs drawn); the kernels are now called directly on mixed-degree pairs",
 "C07-r7m2/": "first missed (zero-filled output arrays); outputs now hold stale values",
 "C08-r7m4/": "first missed (the 2-D interpolant was not evaluated through eval_vector); added with a stale caller-provided array",
 "C09-r7m2/": "first missed (the equal-weights clause was skipped when the interpolation points were not evenly spaced - a precondition that excused the slip itself); now judged on every uniform periodic space, only 15-decimal rounding on a tiny domain is excused",
 "C11-r7m2/": "first missed (every operator was built with an explicit boundary mode); an operator built without it must behave as fEq, which the driver relies on",
 "C11-r7m4/": "first missed (the grid-level oracle took its gradient from an operator built on the same distributed layout); the reference gradient now comes from an undistributed operator addressed by the global radius",
 "C12-r7m2/": "first missed (every operator was built with an explicit tolerance); the implicit step with the default tolerance must terminate (subprocess with a time limit)",
 "C14-r7m2/": "a slip in QuasiNeutralitySolver (kinetic-electron right-hand-side factor, B != 1): what C15 states; C15 first missed it too (B = 1 only) and now uses B = 1.7",
 "C14-r7m4/": "first missed (linearity was tested with real factors; the manufactured right-hand sides had real modes); complex linearity solve(i rho) = i solve(rho) added",
 "C14-r7m5/": "a slip in QuasiNeutralitySolver.solveEquation (mode-0 matrix reused, chi = 1): what C15 states; detected by C15 with B = 1.7",
 "C16-r7m5/": "first missed (the driver's construction of its DensityFinder was not observed); the wrapper of the driver run records the spline it is built on",
 "C17-r7m5/": "first missed (the reduced quantities were judged, not the printed line); the line rank 0 writes must show the reduced quantities (C17Trace clause)",
 "C18-r7m1/": "first missed (a loaded field was compared in the layout it was loaded in); it must survive a layout change and back",
 "C18-r7m3/": "first missed (setupSave only into folders it creates itself); existing empty and re-used folders added",
 "C18-r7m4/": "first missed (symbolic constants were only evaluated over default-valued operands); sources with non-default operands are evaluated independently",
}
rows = []
for d in sorted(glob.glob("/verif/seeded/*/meta.json")):
    m = json.load(open(d))
    key = os.path.relpath(os.path.dirname(d), "/verif/seeded") + "/"
    readme = os.path.join(os.path.dirname(d), "README.md")
    first = ""
    if os.path.exists(readme):
        for ln in open(readme):
            if ln.strip() and not ln.startswith("#"):
                first = ln.strip()[:160]
                break
    rows.append((key, m, first))
with open("/verif/seeded/SUMMARY.md", "w") as fh:
    fh.write("# Seeded changes (produced by sub-agents that saw only the property text and a scratch worktree)\n\n")
    fh.write("Each directory holds `patch.diff`, `demo.py`, the agent's `README.md` and `meta.json` (what `tools/seed_eval.py` observed: patch applies, "
             "demonstration passes on the clean tree and fails with the patch, pinned suite still 2074 passed, exit status and VIOLATION lines of the "
             "quick check run against the patched worktree).\n\n")
    fh.write("| seed | confirmed | detected by (quick) | note |\n|---|---|---|---|\n")
    for key, m, first in rows:
        fh.write("| %s | %s | %s | %s |\n" % (key.rstrip("/"), "yes" if m.get("confirmed") else "NO (%s)" % m.get("test_suite_with_patch", "")[:40],
                                            ", ".join(m.get("detected_by", [])) or "**missed**", NOTES.get(key, "")))
    fh.write("\n")
    for key, m, first in rows:
        fh.write("* **%s** - %s\n" % (key.rstrip("/"), first))
print(open("/verif/seeded/SUMMARY.md").read()[:3000])
