#!/usr/bin/env python3
"""Write /verif/seeded/SUMMARY.md from the meta.json files."""
import glob, json, os
NOTES = {
 "C04/": "first missed by C04 (no 3-hop route in its layout sets; C01 caught it); C04 now has a five-layout configuration with a three-hop route",
 "C06/": "first missed (no layout graph with several equally short routes of length 3); C06 now records cyclic layout graphs (six 3-D orderings, random 4-D sets of 5-8 orderings)",
 "C12/": "first missed (a fresh operator object per step); C12 now drives ONE PoloidalAdvection object through a sequence of steps with different dt and potentials",
 "C16/": "first missed (radial extents whose larger blocks come last); C16 now uses radial extents 5 and 7 on 3-4 processes and grids (4,1),(3,1)",
 "C18/": "first missed (explicit time 0 never requested when a later checkpoint exists); C18 now loads every checkpoint of a directory by explicit time",
 "C19/": "first missed (no Lagrange shift beyond one z period); C19 now calls get_lagrange_vals with shifts beyond one and two periods, output inside a sentinel buffer",
}
rows = []
for d in sorted(glob.glob("/verif/seeded/*/meta.json")):
    m = json.load(open(d))
    key = os.path.relpath(os.path.dirname(d), "/verif/seeded") + "/"
    readme = os.path.join(os.path.dirname(d), "README.md")
    first = ""
    if os.path.exists(readme):
        for ln in open(readme):
            if ln.strip() and not ln.startswith("#"):
                first = ln.strip()[:160]
                break
    rows.append((key, m, first))
with open("/verif/seeded/SUMMARY.md", "w") as fh:
    fh.write("# Seeded changes (produced by sub-agents that saw only the property text and a scratch worktree)\n\n")
    fh.write("Each directory holds `patch.diff`, `demo.py`, the agent's `README.md` and `meta.json` (what `tools/seed_eval.py` observed: patch applies, "
             "demonstration passes on the clean tree and fails with the patch, pinned suite still 2074 passed, exit status and VIOLATION lines of the "
             "quick check run against the patched worktree).\n\n")
    fh.write("| seed | confirmed | detected by (quick) | note |\n|---|---|---|---|\n")
    for key, m, first in rows:
        fh.write("| %s | %s | %s | %s |\n" % (key.rstrip("/"), "yes" if m.get("confirmed") else "NO (%s)" % m.get("test_suite_with_patch", "")[:40],
                                            ", ".join(m.get("detected_by", [])) or "**missed**", NOTES.get(key, "")))
    fh.write("\n")
    for key, m, first in rows:
        fh.write("* **%s** - %s\n" % (key.rstrip("/"), first))
print(open("/verif/seeded/SUMMARY.md").read()[:3000])
